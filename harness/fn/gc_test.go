package fn

import (
	"math/rand"
	"sort"
	"testing"

	"github.com/resgateio/resgate/server"
)

const (
	stDisposed = 0
	stLoaded   = 2
	stReady    = 3
	stSent     = 5
)

// TestTableGC enumerates every consistent subscription table over N
// resources (all reference graphs incl. self references and cycles, every
// set of direct subscriptions, every set of direct roots that are still
// loading) and every release operation on it, runs the real collector
// (removeCount + tryDelete + Dispose/Unsend) on a synthetic table and
// records the result.
func TestTableGC(t *testing.T) {
	tb := openTable(t, "gc")
	defer tb.close()
	maxN := bound("VERIF_GC_NODES", 3)
	tb.add(rec{"maxnodes": maxN})
	for N := 1; N <= maxN; N++ {
		gcTables(tb, N, 0)
	}
	// thorough: a sample of the four-resource graphs (all of them are 2^16 graphs x 15 x 16 role assignments)
	if k := bound("VERIF_GC_SAMPLE4", 0); k > 0 && maxN < 4 {
		gcTables(tb, 4, k)
	}
}

// gcTables emits every table over N resources; with sample > 0 only that many
// graphs, drawn with the run's seed.
func gcTables(tb *table, N int, sample int) {
	names := []string{"a", "b", "c", "d"}[:N]
	nE := N * N
	graphs := 1 << nE
	rnd := rand.New(rand.NewSource(int64(bound("VERIF_SEED", 1))*7919 + 17))
	if sample > 0 {
		graphs = sample
	}
	for gi := 0; gi < graphs; gi++ {
		g := gi
		if sample > 0 {
			g = rnd.Intn(1 << nE)
		}
		edge := func(i, j int) bool { return g&(1<<(i*N+j)) != 0 }
		for dm := 1; dm < 1<<N; dm++ { // at least one direct subscription
			// loading roots: subsets of the direct roots
			for lm := 0; lm < 1<<N; lm++ {
				if lm&^dm != 0 {
					continue
				}
				// sent roots and reachability
				sent := make([]bool, N)
				pres := make([]bool, N)
				var mark func(i int, arr []bool)
				mark = func(i int, arr []bool) {
					if arr[i] {
						return
					}
					arr[i] = true
					for j := 0; j < N; j++ {
						if edge(i, j) {
							mark(j, arr)
						}
					}
				}
				for i := 0; i < N; i++ {
					if dm&(1<<i) != 0 {
						mark(i, pres)
						if lm&(1<<i) == 0 {
							mark(i, sent)
						}
					}
				}
				// canonical only if every node is present (smaller tables are covered by smaller graphs)
				all := true
				for i := 0; i < N; i++ {
					all = all && pres[i]
				}
				if !all {
					continue
				}
				build := func() []server.VerifGCNode {
					nodes := make([]server.VerifGCNode, N)
					for i := 0; i < N; i++ {
						n := server.VerifGCNode{RID: names[i], Refs: map[string]int{}, HasRS: true}
						if dm&(1<<i) != 0 {
							n.Direct = 1
						}
						if sent[i] {
							n.State = stSent
						} else if lm&(1<<i) != 0 {
							n.State = stLoaded
						} else {
							n.State = stReady
						}
						for j := 0; j < N; j++ {
							if edge(i, j) {
								n.Refs[names[j]] = 1
							}
							if edge(j, i) {
								n.Indirect++
								if sent[j] {
									n.IndirectSent++
								}
							}
						}
						nodes[i] = n
					}
					return nodes
				}
				// operation 1: release one direct subscription
				for i := 0; i < N; i++ {
					if dm&(1<<i) == 0 {
						continue
					}
					pre := build()
					post := server.VerifRunGC(build(), names[i], true, false, 1)
					tb.add(rec{"pre": normNodes(pre), "op": rec{"k": "direct", "n": names[i], "p": "", "sent": false}, "post": normNodes(post)})
				}
				// operation 2: a sent or loaded parent drops its reference to a child
				for i := 0; i < N; i++ {
					for j := 0; j < N; j++ {
						if !edge(i, j) {
							continue
						}
						pre := build()
						delete(pre[i].Refs, names[j])
						run := build()
						delete(run[i].Refs, names[j])
						post := server.VerifRunGC(run, names[j], false, sent[i], 1)
						tb.add(rec{"pre": normNodes(pre), "op": rec{"k": "ref", "n": names[j], "p": names[i], "sent": sent[i]}, "post": normNodes(post)})
					}
				}
			}
		}
	}
}

func normNodes(ns []server.VerifGCNode) map[string]any {
	out := map[string]any{}
	for _, n := range ns {
		refs := []string{}
		for r := range n.Refs {
			refs = append(refs, r)
		}
		sort.Strings(refs)
		out[n.RID] = rec{"st": n.State, "d": n.Direct, "i": n.Indirect, "is": n.IndirectSent, "refs": anys(refs), "gone": n.Gone, "rs": n.HasRS}
	}
	return out
}
