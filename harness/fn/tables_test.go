// Package fn enumerates bounded input domains of the gateway's pure
// functions, runs the real code on every input and writes (input, output)
// tables that TLC checks against the definitional TLA+ modules in spec/fn.
package fn

import (
	"bufio"
	"encoding/json"
	"os"
	"path/filepath"
	"strconv"
	"strings"
	"testing"

	"github.com/resgateio/resgate/server/codec"
	"github.com/resgateio/resgate/server/rescache"
	"github.com/resgateio/resgate/server/reserr"
)

type rec map[string]any

type table struct {
	f  *os.File
	bw *bufio.Writer
	n  int
}

func openTable(t *testing.T, name string) *table {
	dir := os.Getenv("VERIF_OUT")
	if dir == "" {
		t.Skip("VERIF_OUT not set")
	}
	f, err := os.Create(filepath.Join(dir, name+".ndjson"))
	if err != nil {
		t.Fatal(err)
	}
	return &table{f: f, bw: bufio.NewWriterSize(f, 1<<20)}
}

func (tb *table) add(r rec) {
	b, _ := json.Marshal(r)
	tb.bw.Write(b)
	tb.bw.WriteByte('\n')
	tb.n++
}

func (tb *table) close() {
	tb.bw.Flush()
	tb.f.Close()
}

func bound(name string, def int) int {
	if v, err := strconv.Atoi(os.Getenv(name)); err == nil {
		return v
	}
	return def
}

// seqs calls f for every sequence over alpha of length min..max.
func seqs(alpha []string, min, max int, f func(s []string)) {
	var rec func(cur []string)
	rec = func(cur []string) {
		if len(cur) >= min {
			f(append([]string{}, cur...))
		}
		if len(cur) == max {
			return
		}
		for _, a := range alpha {
			rec(append(cur, a))
		}
	}
	rec(nil)
}

// symbol -> bytes
var symBytes = map[string]string{"SP": " ", "DEL": "\x7f", "NA": "\xc3\xa9", "NUL": "\x00", "BAD": "\xff", "TAB": "\t", "LF": "\n", "CR": "\r", "COMMA": ","}

func str(syms []string) string {
	s := ""
	for _, x := range syms {
		if b, ok := symBytes[x]; ok {
			s += b
		} else {
			s += x
		}
	}
	return s
}

func anys(s []string) []any {
	o := make([]any, len(s))
	for i, x := range s {
		o[i] = x
	}
	return o
}

// TestTablePattern: ParseResourcePattern / IsValid / Match over all patterns
// up to a length, against all valid names up to a length.
func TestTablePattern(t *testing.T) {
	tb := openTable(t, "pattern")
	defer tb.close()
	L := bound("VERIF_PATTERN_LEN", 4)
	var names [][]string
	seqs([]string{"a", "b", "."}, 1, 5, func(s []string) {
		if codec.IsValidRID(str(s), false) {
			names = append(names, s)
		}
	})
	nl := make([]any, len(names))
	for i, n := range names {
		nl[i] = anys(n)
	}
	tb.add(rec{"names": nl, "alphabet": anys([]string{"a", "b", ".", "*", ">", "?"}), "maxlen": L})
	row := func(p []string) {
		rp := rescache.ParseResourcePattern(str(p))
		m := []any{}
		for i, n := range names {
			if rp.Match(str(n)) {
				m = append(m, i+1)
			}
		}
		tb.add(rec{"p": anys(p), "valid": rp.IsValid(), "m": m})
	}
	seqs([]string{"a", "b", ".", "*", ">", "?"}, 1, L, row)
	// characters outside the printable non-space range, in every position of short patterns
	for _, bad := range []string{"SP", "DEL", "NA", "NUL", "TAB"} {
		seqs([]string{"a", ".", "*", ">", bad}, 1, 3, func(p []string) {
			for _, x := range p {
				if x == bad {
					row(p)
					return
				}
			}
		})
	}
}

// TestTableCallList: Access.CanCall over all call lists up to a length.
func TestTableCallList(t *testing.T) {
	tb := openTable(t, "calllist")
	defer tb.close()
	L := bound("VERIF_CALL_LEN", 5)
	meths := [][]string{{"a"}, {"b"}, {"a", "b"}, {"b", "a"}, {"a", "a"}, {"a", "b", "a"}}
	seqs([]string{"a", "b", "COMMA", "*"}, 0, L, func(c []string) {
		acc := &rescache.Access{AccessResult: &codec.AccessResult{Get: true, Call: str(c)}}
		for _, m := range meths {
			tb.add(rec{"call": anys(c), "meth": anys(m), "ok": acc.CanCall(str(m)) == nil})
		}
	})
}

type val struct {
	T string `json:"t"`
	V string `json:"v"`
}

func cval(v val) codec.Value {
	var raw string
	switch v.T {
	case "p":
		raw = v.V
	case "r":
		raw = `{"rid":"` + v.V + `"}`
	case "s":
		raw = `{"rid":"` + v.V + `","soft":true}`
	case "d":
		raw = `{"data":` + v.V + `}`
	}
	var cv codec.Value
	if err := cv.UnmarshalJSON([]byte(raw)); err != nil {
		panic(err)
	}
	return cv
}

func nval(raw json.RawMessage) val {
	var o struct {
		RID    *string         `json:"rid"`
		Soft   bool            `json:"soft"`
		Action *string         `json:"action"`
		Data   json.RawMessage `json:"data"`
	}
	if len(raw) > 0 && raw[0] == '{' && json.Unmarshal(raw, &o) == nil {
		switch {
		case o.RID != nil && o.Soft:
			return val{"s", *o.RID}
		case o.RID != nil:
			return val{"r", *o.RID}
		case o.Action != nil:
			return val{"x", ""}
		case o.Data != nil:
			return val{"d", string(o.Data)}
		}
	}
	return val{"p", string(raw)}
}

func nvals(raw string) []any {
	var l []json.RawMessage
	json.Unmarshal([]byte(raw), &l)
	o := make([]any, len(l))
	for i, x := range l {
		o[i] = nval(x)
	}
	return o
}

func nmodel(raw string) map[string]any {
	var m map[string]json.RawMessage
	json.Unmarshal([]byte(raw), &m)
	o := map[string]any{}
	for k, x := range m {
		o[k] = nval(x)
	}
	return o
}

func normEvents(evs [][2]string) []any {
	out := []any{}
	for _, e := range evs {
		r := rec{"e": e[0], "idx": -1, "val": val{"", ""}, "vals": map[string]any{}}
		var d struct {
			Idx    *int                       `json:"idx"`
			Value  json.RawMessage            `json:"value"`
			Values map[string]json.RawMessage `json:"values"`
		}
		json.Unmarshal([]byte(e[1]), &d)
		if d.Idx != nil {
			r["idx"] = *d.Idx
		}
		if d.Value != nil {
			r["val"] = nval(d.Value)
		}
		if d.Values != nil {
			vs := map[string]any{}
			for k, x := range d.Values {
				vs[k] = nval(x)
			}
			r["vals"] = vs
		}
		out = append(out, r)
	}
	return out
}

// TestTableCollectionDiff: the reset diff of collections for all pairs of
// collections up to a length over three value tokens.
func TestTableCollectionDiff(t *testing.T) {
	tb := openTable(t, "coldiff")
	defer tb.close()
	L := bound("VERIF_DIFF_LEN", 3)
	toks := map[string]val{"A": {"p", "1"}, "B": {"r", "x"}, "C": {"s", "x"}}
	var all [][]string
	seqs([]string{"A", "B", "C"}, 0, L, func(s []string) { all = append(all, s) })
	conv := func(s []string) ([]codec.Value, []any) {
		cv := make([]codec.Value, len(s))
		nv := make([]any, len(s))
		for i, x := range s {
			cv[i] = cval(toks[x])
			nv[i] = toks[x]
		}
		return cv, nv
	}
	tb.add(rec{"maxlen": L, "count": len(all)})
	for _, a := range all {
		for _, b := range all {
			ca, na := conv(a)
			cb, nb := conv(b)
			evs, res := rescache.VerifCollectionDiff(ca, cb)
			tb.add(rec{"a": na, "b": nb, "ev": normEvents(evs), "res": nvals(res)})
		}
	}
}

// TestTableModelDiff: the reset diff of models for all pairs of models over a
// few keys and values.
func TestTableModelDiff(t *testing.T) {
	tb := openTable(t, "modeldiff")
	defer tb.close()
	nk := bound("VERIF_DIFF_KEYS", 2)
	keys := []string{"k1", "k2", "k3"}[:nk]
	opts := []*val{nil, {"p", "1"}, {"p", "2"}, {"r", "x"}, {"s", "x"}}
	var all []map[string]val
	var gen func(i int, cur map[string]val)
	gen = func(i int, cur map[string]val) {
		if i == len(keys) {
			m := map[string]val{}
			for k, v := range cur {
				m[k] = v
			}
			all = append(all, m)
			return
		}
		for _, o := range opts {
			if o != nil {
				cur[keys[i]] = *o
			} else {
				delete(cur, keys[i])
			}
			gen(i+1, cur)
		}
		delete(cur, keys[i])
	}
	gen(0, map[string]val{})
	conv := func(m map[string]val) (map[string]codec.Value, map[string]any) {
		cv := map[string]codec.Value{}
		nv := map[string]any{}
		for k, v := range m {
			cv[k] = cval(v)
			nv[k] = v
		}
		return cv, nv
	}
	tb.add(rec{"keys": nk, "count": len(all)})
	for _, a := range all {
		for _, b := range all {
			ca, na := conv(a)
			cb, nb := conv(b)
			evs, res := rescache.VerifModelDiff(ca, cb)
			tb.add(rec{"a": na, "b": nb, "ev": normEvents(evs), "res": nmodel(res)})
		}
	}
}

// TestTableValues: every value object over a bounded family of member
// options, in the four places a service can put a value (model / collection
// of a get response, change event, add event), through the real decoders.
func TestTableValues(t *testing.T) {
	tb := openTable(t, "values")
	defer tb.close()
	ridOpt := map[string]string{"none": "", "null": `"rid":null`, "valid": `"rid":"a.b"`, "query": `"rid":"a.b?q=1"`, "empty": `"rid":""`, "invalid": `"rid":"a..b"`, "wild": `"rid":"a.*"`, "number": `"rid":12`}
	softOpt := map[string]string{"none": "", "true": `"soft":true`, "false": `"soft":false`, "null": `"soft":null`, "string": `"soft":"yes"`}
	dataOpt := map[string]string{"none": "", "null": `"data":null`, "prim": `"data":1`, "string": `"data":"s"`, "object": `"data":{"k":1}`, "array": `"data":[1]`}
	actOpt := map[string]string{"none": "", "null": `"action":null`, "delete": `"action":"delete"`, "other": `"action":"purge"`, "number": `"action":7`}
	typeName := map[codec.ValueType]string{codec.ValueTypeNone: "none", codec.ValueTypeDelete: "delete", codec.ValueTypePrimitive: "prim",
		codec.ValueTypeReference: "ref", codec.ValueTypeSoftReference: "soft", codec.ValueTypeData: "data"}
	decode := func(ctx, raw string) (string, string) {
		var v codec.Value
		switch ctx {
		case "getmodel":
			r, err := codec.DecodeGetResponse([]byte(`{"result":{"model":{"k":` + raw + `}}}`))
			if err != nil {
				return "err", ""
			}
			v = r.Model["k"]
		case "getcoll":
			r, err := codec.DecodeGetResponse([]byte(`{"result":{"collection":[` + raw + `]}}`))
			if err != nil {
				return "err", ""
			}
			v = r.Collection[0]
		case "change":
			m, err := codec.DecodeChangeEvent(json.RawMessage(`{"values":{"k":` + raw + `}}`))
			if err != nil {
				return "err", ""
			}
			v = m["k"]
		case "add":
			d, err := codec.DecodeAddEvent(json.RawMessage(`{"idx":0,"value":` + raw + `}`))
			if err != nil {
				return "err", ""
			}
			v = d.Value
		}
		return typeName[v.Type], v.RID
	}
	ctxs := []string{"getmodel", "getcoll", "change", "add"}
	for _, top := range []struct{ kind, raw string }{{"prim", "1"}, {"prim", `"s"`}, {"prim", "null"}, {"prim", "true"}, {"array", "[]"}, {"array", `[{"rid":"a"}]`}} {
		for _, ctx := range ctxs {
			ty, rid := decode(ctx, top.raw)
			tb.add(rec{"top": top.kind, "rid": "none", "soft": "none", "data": "none", "action": "none", "extra": false, "ctx": ctx, "got": ty, "grid": rid})
		}
	}
	for rk, rv := range ridOpt {
		for sk, sv := range softOpt {
			for dk, dv := range dataOpt {
				for ak, av := range actOpt {
					for _, extra := range []bool{false, true} {
						parts := []string{}
						for _, p := range []string{rv, sv, dv, av} {
							if p != "" {
								parts = append(parts, p)
							}
						}
						if extra {
							parts = append(parts, `"x":1`)
						}
						raw := "{" + strings.Join(parts, ",") + "}"
						for _, ctx := range ctxs {
							ty, rid := decode(ctx, raw)
							tb.add(rec{"top": "object", "rid": rk, "soft": sk, "data": dk, "action": ak, "extra": extra, "ctx": ctx, "got": ty, "grid": rid})
						}
					}
				}
			}
		}
	}
}

// TestTableAccess: access responses over a bounded family of members
// through the real decoder, then CanGet and CanCall on the result as
// rescache.Cache.Access builds it.
func TestTableAccess(t *testing.T) {
	tb := openTable(t, "access")
	defer tb.close()
	getOpt := map[string]string{"none": "", "true": `"get":true`, "false": `"get":false`, "null": `"get":null`, "string": `"get":"yes"`, "number": `"get":1`}
	callOpt := map[string]string{"none": "", "star": `"call":"*"`, "a": `"call":"a"`, "ab": `"call":"a,b"`, "empty": `"call":""`, "null": `"call":null`, "number": `"call":7`, "stara": `"call":"*,a"`}
	errOpt := map[string]string{"none": "", "notFound": `"error":{"code":"system.notFound","message":"x"}`, "denied": `"error":{"code":"system.accessDenied","message":"x"}`,
		"custom": `"error":{"code":"my.err","message":"x"}`, "null": `"error":null`}
	resOpt := []string{"object", "absent", "null", "array"}
	code := func(err error) string {
		if err == nil {
			return "ok"
		}
		if re, ok := err.(*reserr.Error); ok {
			return re.Code
		}
		return "other"
	}
	for _, res := range resOpt {
		for gk, gv := range getOpt {
			for ck, cv := range callOpt {
				if res != "object" && (gk != "none" || ck != "none") {
					continue
				}
				for ek, ev := range errOpt {
					parts := []string{}
					switch res {
					case "object":
						m := []string{}
						for _, p := range []string{gv, cv} {
							if p != "" {
								m = append(m, p)
							}
						}
						parts = append(parts, `"result":{`+strings.Join(m, ",")+`}`)
					case "null":
						parts = append(parts, `"result":null`)
					case "array":
						parts = append(parts, `"result":[true]`)
					}
					if ev != "" {
						parts = append(parts, ev)
					}
					payload := "{" + strings.Join(parts, ",") + "}"
					ar, _, rerr := codec.DecodeAccessResponse([]byte(payload))
					acc := &rescache.Access{AccessResult: ar, Error: rerr}
					tb.add(rec{"res": res, "get": gk, "call": ck, "err": ek,
						"canget": code(acc.CanGet()), "calla": code(acc.CanCall("a")), "callb": code(acc.CanCall("b")), "callc": code(acc.CanCall("c"))})
				}
			}
		}
	}
}
