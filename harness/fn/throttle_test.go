package fn

import (
	"math/rand"
	"sync"
	"testing"
	"testing/synctest"

	"github.com/resgateio/resgate/server/rescache"
)

// TestTraceThrottle drives the real Throttle with random Add / Done
// sequences (any answer order) and records what it did.
func TestTraceThrottle(t *testing.T) {
	tb := openTable(t, "throttle")
	defer tb.close()
	runs := bound("VERIF_THR_RUNS", 200)
	rnd := rand.New(rand.NewSource(int64(bound("VERIF_SEED", 1))))
	var mu sync.Mutex
	var last rec
	rescache.VerifNote = func(kind string, kv ...interface{}) {
		if kind != "thrAdd" && kind != "thrDone" {
			return
		}
		r := rec{}
		for i := 0; i+1 < len(kv); i += 2 {
			r[kv[i].(string)] = kv[i+1]
		}
		mu.Lock()
		last = r
		mu.Unlock()
	}
	defer func() { rescache.VerifNote = nil }()
	for run := 0; run < runs; run++ {
		limit := 1 + rnd.Intn(3)
		n := 3 + rnd.Intn(8)
		synctest.Test(t, func(t *testing.T) {
			th := rescache.NewThrottle(limit)
			tb.add(rec{"op": "reset", "limit": limit})
			var ran []int
			var running []int
			next := 0
			take := func() []any {
				mu.Lock()
				defer mu.Unlock()
				o := make([]any, len(ran))
				for i, x := range ran {
					o[i] = x
					running = append(running, x)
				}
				ran = nil
				return o
			}
			for next < n || len(running) > 0 {
				if next < n && (len(running) == 0 || rnd.Intn(2) == 0) {
					next++
					k := next
					th.Add(func() {
						mu.Lock()
						ran = append(ran, k)
						mu.Unlock()
					})
					synctest.Wait()
					mu.Lock()
					nt := last
					mu.Unlock()
					tb.add(rec{"op": "add", "cb": k, "running": nt["running"], "qlen": nt["qlen"], "ran": take()})
				} else {
					i := rnd.Intn(len(running))
					k := running[i]
					running = append(running[:i], running[i+1:]...)
					th.Done()
					synctest.Wait()
					mu.Lock()
					nt := last
					mu.Unlock()
					tb.add(rec{"op": "done", "cb": k, "running": nt["running"], "qlen": nt["qlen"], "ran": take()})
				}
			}
			tb.add(rec{"op": "end"})
		})
	}
}
