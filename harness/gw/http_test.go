package gw

import (
	"bufio"
	"encoding/json"
	"fmt"
	"net/textproto"
	"os"
	"path/filepath"
	"strings"
	"testing"
	"testing/synctest"
	"time"

	"github.com/posener/wstest"
	"github.com/resgateio/resgate/server"
)

func openOut(t *testing.T, name string) (*json.Encoder, func()) {
	dir := os.Getenv("VERIF_OUT")
	if dir == "" {
		t.Skip("VERIF_OUT not set")
	}
	f, err := os.Create(filepath.Join(dir, name+".ndjson"))
	if err != nil {
		t.Fatal(err)
	}
	bw := bufio.NewWriterSize(f, 1<<20)
	return json.NewEncoder(bw), func() { bw.Flush(); f.Close() }
}

var originSym = map[string]string{"h": "h", "H": "H", "C": ":", "S": "/", "a": "a", "A": "A", "z": "z", "E1": "\xc3\xa9", "E2": "\xc3\x89",
	"XFE": "\xfe", "XFF": "\xff", "FFFD": "\xef\xbf\xbd", "K": "\xe2\x84\xaa"}

// TestTableOrigin: matchesOrigins over all origins / allow-list entries up to
// a length over an alphabet with ASCII letters in both cases, non-ASCII
// letters in both cases, the Kelvin sign and invalid UTF-8 bytes.
func TestTableOrigin(t *testing.T) {
	enc, done := openOut(t, "origin")
	defer done()
	L := envInt("VERIF_ORIGIN_LEN", 3)
	alpha := []string{"h", "H", "a", "A", "C", "E1", "E2", "XFE", "XFF", "FFFD", "K"}
	var all [][]string
	allSeqs(alpha, L, func(s []string) {
		if len(s) > 0 {
			all = append(all, s)
		}
	})
	str := func(s []string) string {
		o := ""
		for _, x := range s {
			o += originSym[x]
		}
		return o
	}
	lower := func(s string) string { // what Config.prepare does to allow-list entries
		b := []byte(s)
		for i, c := range b {
			if 'A' <= c && c <= 'Z' {
				b[i] = c + 'a' - 'A'
			}
		}
		return string(b)
	}
	// thorough: origins one symbol longer than the allow-list entries, tried against every entry of up to two symbols
	origins := all
	if envInt("VERIF_ORIGIN_EXT", 0) == 1 {
		allSeqs(alpha, L+1, func(s []string) {
			if len(s) == L+1 {
				origins = append(origins, s)
			}
		})
	}
	ostr := make([]string, len(origins))
	for i, o := range origins {
		ostr[i] = str(o)
	}
	enc.Encode(Rec{"maxlen": L, "alphabet": alpha, "count": len(all)})
	for _, al := range all {
		upto := len(all)
		if len(al) <= 2 {
			upto = len(origins)
		}
		list := []string{lower(str(al))}
		m := []any{}
		for j := 0; j < upto; j++ {
			if server.VerifMatchesOrigins(list, ostr[j]) {
				m = append(m, j+1)
			}
		}
		enc.Encode(Rec{"allowed": al, "m": m, "upto": upto})
	}
	// two-entry allow-lists
	for i := 0; i < len(all); i += 37 {
		for j := 0; j < len(all); j += 41 {
			list := []string{lower(str(all[i])), lower(str(all[j]))}
			m := []any{}
			for k := 0; k < len(all); k++ {
				if server.VerifMatchesOrigins(list, ostr[k]) {
					m = append(m, k+1)
				}
			}
			enc.Encode(Rec{"allowed": all[i], "allowed2": all[j], "m": m, "upto": len(all)})
		}
	}
	ol := make([]any, len(origins))
	for i, o := range origins {
		ol[i] = o
	}
	enc.Encode(Rec{"origins": ol})
}

type httpCase struct {
	name   string
	method string
	path   string
	hdr    map[string]string
	// service behaviour: answers to auth (header auth), access, call/get in order
	auth, access, final [3]string // out, arg, meta
}

// TestTableHTTPStatus: error code -> HTTP status, service meta status and
// headers, CORS refusal; every case runs through the real ServeHTTP.
func TestTableHTTPStatus(t *testing.T) {
	enc, done := openOut(t, "httpstatus")
	defer done()
	codes := []string{"system.notFound", "system.methodNotFound", "system.timeout", "system.accessDenied", "system.forbidden",
		"system.methodNotAllowed", "system.subjectTooLong", "system.internalError", "system.serviceUnavailable",
		"system.invalidParams", "system.invalidQuery", "system.noSubscription", "system.badRequest", "system.notImplemented", "test.custom", "system.unknown"}
	statuses := []int{-1, 0, 100, 200, 299, 300, 301, 302, 399, 400, 401, 403, 404, 405, 408, 410, 451, 499, 500, 501, 503, 504, 599, 600, 1000}
	hdrNames := []string{"Content-Type", "content-type", "CONTENT-TYPE", "Access-Control-Allow-Origin", "access-control-allow-origin",
		"Access-Control-Allow-Credentials", "access-control-allow-credentials", "X-Test", "x-test", "Set-Cookie", "set-cookie", "Vary", "Location"}
	run := func(cfg ScenarioCfg, row Rec, c httpCase) { httpRow(t, enc, cfg, row, c) }
	// 1. error code -> status, on access (GET), on call (POST) and on get
	for _, code := range codes {
		run(ScenarioCfg{}, Rec{"kind": "code", "on": "access", "code": code, "method": "GET"}, httpCase{method: "GET", path: "/api/m", access: [3]string{"code:" + code}})
		run(ScenarioCfg{}, Rec{"kind": "code", "on": "get", "code": code, "method": "GET"}, httpCase{method: "GET", path: "/api/m", final: [3]string{"code:" + code}})
		run(ScenarioCfg{}, Rec{"kind": "code", "on": "call", "code": code, "method": "POST"}, httpCase{method: "POST", path: "/api/m/act", final: [3]string{"code:" + code}})
	}
	put := "put"
	_ = put
	// 2. meta status on auth / access / call, with an ok or an error base response
	for _, st := range statuses {
		meta := fmt.Sprintf(`{"status":%d}`, st)
		for _, base := range []string{"ok", "code:test.custom"} {
			run(ScenarioCfg{HeaderAuth: "auth.login"}, Rec{"kind": "meta", "on": "auth", "mstatus": st, "base": base, "method": "GET"},
				httpCase{method: "GET", path: "/api/m", auth: [3]string{base, "", meta}})
			run(ScenarioCfg{}, Rec{"kind": "meta", "on": "access", "mstatus": st, "base": base, "method": "GET"},
				httpCase{method: "GET", path: "/api/m", access: [3]string{base, "", meta}})
			run(ScenarioCfg{}, Rec{"kind": "meta", "on": "access", "mstatus": st, "base": base, "method": "POST"},
				httpCase{method: "POST", path: "/api/m/act", access: [3]string{base, "", meta}})
			run(ScenarioCfg{}, Rec{"kind": "meta", "on": "call", "mstatus": st, "base": base, "method": "POST"},
				httpCase{method: "POST", path: "/api/m/act", final: [3]string{base, "", meta}})
		}
	}
	// 3. meta headers: protected names in any letter case, ordinary ones, Set-Cookie accumulation
	for _, hn := range hdrNames {
		for _, stat := range []string{"", `,"status":404`} {
			meta := fmt.Sprintf(`{"header":{%q:["v1","v2"]}%s}`, hn, stat)
			meta2 := fmt.Sprintf(`{"header":{%q:["w1"]}}`, hn)
			run(ScenarioCfg{HeaderAuth: "auth.login"}, Rec{"kind": "hdr", "name": hn, "cname": textproto.CanonicalMIMEHeaderKey(hn), "direct": stat != "", "on": "auth+call", "method": "POST"},
				httpCase{method: "POST", path: "/api/m/act", auth: [3]string{"ok", "", meta2}, final: [3]string{"ok", "", meta}})
			run(ScenarioCfg{}, Rec{"kind": "hdr", "name": hn, "cname": textproto.CanonicalMIMEHeaderKey(hn), "direct": stat != "", "on": "access", "method": "GET"},
				httpCase{method: "GET", path: "/api/m", access: [3]string{"ok", "", meta}})
		}
	}
	// 3b. one meta object naming the same header under two spellings: the values of both accumulate
	for _, pair := range [][2]string{{"Set-Cookie", "set-cookie"}, {"SET-COOKIE", "Set-Cookie"}, {"X-Test", "x-test"}, {"x-TEST", "X-test"}} {
		for _, stat := range []string{"", `,"status":404`} {
			meta := fmt.Sprintf(`{"header":{%q:["d1"],%q:["d2"]}%s}`, pair[0], pair[1], stat)
			cn := textproto.CanonicalMIMEHeaderKey(pair[0])
			run(ScenarioCfg{}, Rec{"kind": "hdrdup", "cname": cn, "direct": stat != "", "on": "call", "method": "POST"},
				httpCase{method: "POST", path: "/api/m/act", final: [3]string{"ok", "", meta}})
			run(ScenarioCfg{}, Rec{"kind": "hdrdup", "cname": cn, "direct": stat != "", "on": "access", "method": "GET"},
				httpCase{method: "GET", path: "/api/m", access: [3]string{"ok", "", meta}})
			run(ScenarioCfg{HeaderAuth: "auth.login"}, Rec{"kind": "hdrdup", "cname": cn, "direct": stat != "", "on": "auth", "method": "GET"},
				httpCase{method: "GET", path: "/api/m", auth: [3]string{"ok", "", meta}})
		}
	}
	// 4. CORS: origin allow-list on GET / POST / OPTIONS, with and without header auth
	for _, origin := range []string{"", "EMPTY", "null", "NULL", "http://a", "HTTP://A", "http://b", "http://a.evil", "http://", "http://a:80", "http://a/", " http://a", "http://c"} {
		for _, m := range []string{"GET", "POST", "OPTIONS"} {
			for _, ha := range []string{"", "auth.login"} {
				h := map[string]string{}
				if origin == "EMPTY" {
					h["Origin"] = "" // header present with an empty value
				} else if origin != "" {
					h["Origin"] = origin
				}
				p := "/api/m"
				if m == "POST" {
					p = "/api/m/act"
				}
				run(ScenarioCfg{AllowOrigin: "http://a;http://c", HeaderAuth: ha}, Rec{"kind": "cors", "origin": origin, "lorigin": strings.ToLower(origin), "method": m, "hauth": ha != ""},
					httpCase{method: m, path: p, hdr: h})
			}
		}
	}
	_ = strings.ToLower
}

// TestTablePost: POST returns the service's result verbatim (no content for
// null), a Location header for resource responses; HEAD is handled as GET.
func TestTablePost(t *testing.T) {
	enc, done := openOut(t, "httppost")
	defer done()
	one := func(cfg ScenarioCfg, method, path string, final [3]string, access string) Rec {
		row := Rec{"status": 0, "body": "", "hdr": map[string]any{}}
		synctest.Test(t, func(t *testing.T) {
			cfg.Free, cfg.Family = true, "http"
			cfg.Resources = map[string]SimRes{"m": {Kind: "m", M: map[string]Val{"x": {T: "p", V: "1"}}}}
			w := NewWorld(t, cfg)
			mark := len(w.Log())
			w.Do(Step{Op: "http", C: "h1", Method: method, Path: path})
			for i := 0; i < 10; i++ {
				rs := w.mq.pendingReqs()
				if len(rs) == 0 {
					break
				}
				r := rs[0]
				if r.typ == "access" {
					w.sim.reply(r, access, "")
				} else {
					w.sim.reply(r, final[0], final[1], final[2])
				}
				synctest.Wait()
				w.drainFrames()
			}
			w.Drain()
			for _, r := range w.Log()[mark:] {
				if r["e"] == "httpres" {
					row["status"], row["hdr"], row["body"] = r["status"], r["hdr"], r["body"]
				}
			}
			w.Teardown()
		})
		return row
	}
	for _, enco := range []string{"json", "jsonflat"} {
		for _, raw := range []string{`{"a":1}`, `null`, `"str"`, `[1,2]`, `12`, `{"a":{"b":[true,null]}}`, `""`, `false`} {
			r := one(ScenarioCfg{APIEncoding: enco}, "POST", "/api/m/act", [3]string{"raw", raw, ""}, "ok")
			r["kind"], r["raw"], r["enc"] = "post", raw, enco
			enc.Encode(r)
		}
		for _, rr := range [][2]string{{"b", "/api/b"}, {"b.c", "/api/b/c"}, {"m", "/api/m"}} {
			r := one(ScenarioCfg{APIEncoding: enco}, "POST", "/api/m/act", [3]string{"res", rr[0], ""}, "ok")
			r["kind"], r["rrid"], r["loc"], r["enc"] = "postres", rr[0], rr[1], enco
			enc.Encode(r)
		}
		for _, c := range [][3]string{{"/api/m", "ok", "ok"}, {"/api/nope", "ok", "ok"}, {"/api/m", "deny", "ok"}, {"/api/m", "ok", "code:system.internalError"}} {
			g := one(ScenarioCfg{APIEncoding: enco}, "GET", c[0], [3]string{c[2], "", ""}, c[1])
			h := one(ScenarioCfg{APIEncoding: enco}, "HEAD", c[0], [3]string{c[2], "", ""}, c[1])
			enc.Encode(Rec{"kind": "head", "enc": enco, "path": c[0], "gstatus": g["status"], "hstatus": h["status"], "ghdr": g["hdr"], "hhdr": h["hdr"]})
		}
	}
}

// TestTableWSUpgrade: WebSocket upgrades against the origin allow-list, with
// and without wsHeaderAuth, and service meta on the header-auth response.
func TestTableWSUpgrade(t *testing.T) {
	enc, done := openOut(t, "wsupgrade")
	defer done()
	type res struct {
		status int
		hdr    map[string][]string
		err    string
	}
	one := func(cfg ScenarioCfg, origin string, authOut, meta string) Rec {
		row := Rec{"status": 0, "hdr": map[string]any{}, "reqs": []any{}, "upgraded": false}
		synctest.Test(t, func(t *testing.T) {
			cfg.Free, cfg.Family = true, "ws"
			w := NewWorld(t, cfg)
			h := map[string][]string{}
			if origin == "EMPTY" {
				h["Origin"] = []string{""}
			} else if origin != "" {
				h["Origin"] = []string{origin}
			}
			ch := make(chan res, 1)
			go func() {
				d := wstest.NewDialer(w.svc.GetWSHandlerFunc())
				ws, resp, err := d.Dial("ws://example.org/", h)
				r := res{}
				if resp != nil {
					r.status, r.hdr = resp.StatusCode, resp.Header
				}
				if err != nil {
					r.err = err.Error()
				} else {
					ws.Close()
				}
				ch <- r
			}()
			reqs := []any{}
			for i := 0; i < 6; i++ {
				synctest.Wait()
				rs := w.mq.pendingReqs()
				if len(rs) == 0 {
					break
				}
				reqs = append(reqs, rs[0].typ)
				w.sim.reply(rs[0], authOut, "", meta)
			}
			synctest.Wait()
			select {
			case r := <-ch:
				hd := map[string]any{}
				for k, v := range r.hdr {
					vs := make([]any, len(v))
					for i, x := range v {
						vs[i] = x
					}
					hd[k] = vs
				}
				row["status"], row["hdr"], row["upgraded"] = r.status, hd, r.err == ""
			default:
				row["status"] = -1
			}
			row["reqs"] = reqs
			w.Teardown()
		})
		return row
	}
	for _, origin := range []string{"", "EMPTY", "null", "http://a", "HTTP://A", "http://b", "http://a.evil", "http://a:80", "http://c"} {
		for _, ha := range []string{"", "auth.login"} {
			r := one(ScenarioCfg{AllowOrigin: "http://a;http://c", WSHeaderAuth: ha}, origin, "ok", "")
			r["kind"], r["origin"], r["lorigin"], r["hauth"] = "wsorigin", origin, strings.ToLower(origin), ha != ""
			enc.Encode(r)
		}
	}
	for _, hn := range []string{"Sec-Websocket-Accept", "sec-websocket-accept", "Sec-WebSocket-Extensions", "sec-websocket-protocol", "Upgrade", "Connection", "X-Test", "Set-Cookie"} {
		r := one(ScenarioCfg{WSHeaderAuth: "auth.login"}, "", "ok", fmt.Sprintf(`{"header":{%q:["v1"]}}`, hn))
		r["kind"], r["name"], r["cname"] = "wshdr", hn, textproto.CanonicalMIMEHeaderKey(hn)
		enc.Encode(r)
	}
	for _, st := range []int{200, 299, 300, 302, 401, 404, 503, 599, 600} {
		r := one(ScenarioCfg{WSHeaderAuth: "auth.login"}, "", "ok", fmt.Sprintf(`{"status":%d}`, st))
		r["kind"], r["mstatus"] = "wsmeta", st
		enc.Encode(r)
	}
}

// httpRow runs one HTTP request through the real ServeHTTP with scripted service answers and writes the row.
func httpRow(t *testing.T, enc *json.Encoder, cfg ScenarioCfg, row Rec, c httpCase) {
	httpRowTo(t, cfg, row, c)
	enc.Encode(row)
}

func httpRowTo(t *testing.T, cfg ScenarioCfg, row Rec, c httpCase) {
	synctest.Test(t, func(t *testing.T) {
		cfg.Free = true
		cfg.Family = "http"
		if cfg.Resources == nil {
			cfg.Resources = map[string]SimRes{"m": {Kind: "m", M: map[string]Val{"x": {T: "p", V: "1"}}}}
		}
		w := NewWorld(t, cfg)
		mark := len(w.Log())
		w.Do(Step{Op: "http", C: "h1", Method: c.method, Path: c.path, Hdr: c.hdr})
		reqs := []any{}
		for i := 0; i < 10; i++ {
			rs := w.mq.pendingReqs()
			if len(rs) == 0 {
				break
			}
			r := rs[0]
			beh := c.final
			switch {
			case r.typ == "auth" && cfg.HeaderAuth != "":
				beh = c.auth
			case r.typ == "access":
				beh = c.access
			}
			out := beh[0]
			if out == "" {
				out = "ok"
			}
			reqs = append(reqs, r.typ)
			w.sim.reply(r, out, beh[1], beh[2])
			synctest.Wait()
			w.drainFrames()
		}
		w.Drain()
		for _, r := range w.Log()[mark:] {
			if r["e"] == "httpres" {
				row["status"], row["hdr"], row["body"] = r["status"], r["hdr"], r["body"]
			}
		}
		row["reqs"] = reqs
		w.Teardown()
	})
	if _, ok := row["status"]; !ok {
		row["status"], row["hdr"], row["body"] = 0, map[string]any{}, ""
	}
}

// TestTableHTTPAccess: what an access response grants, seen from outside: every combination of result / get / call /
// error members, with and without a meta member, answered to an HTTP GET and to HTTP POST calls of two methods.
func TestTableHTTPAccess(t *testing.T) {
	enc, done := openOut(t, "httpaccess")
	defer done()
	getOpt := map[string]string{"none": "", "true": `"get":true`, "false": `"get":false`}
	callOpt := map[string]string{"none": "", "star": `"call":"*"`, "a": `"call":"a"`}
	errOpt := map[string]string{"none": "", "notFound": `"error":{"code":"system.notFound","message":"x"}`, "denied": `"error":{"code":"system.accessDenied","message":"x"}`}
	metaOpt := map[string]string{"none": "", "hdr": `{"header":{"X-Test":["v"]}}`, "s200": `{"status":200}`, "empty": `{}`}
	for _, res := range []string{"object", "absent"} {
		for gk, gv := range getOpt {
			for ck, cv := range callOpt {
				if res != "object" && (gk != "none" || ck != "none") {
					continue
				}
				for ek, ev := range errOpt {
					parts := []string{}
					if res == "object" {
						m := []string{}
						for _, p := range []string{gv, cv} {
							if p != "" {
								m = append(m, p)
							}
						}
						parts = append(parts, `"result":{`+strings.Join(m, ",")+`}`)
					}
					if ev != "" {
						parts = append(parts, ev)
					}
					payload := "{" + strings.Join(parts, ",") + "}"
					for mk, mv := range metaOpt {
						for _, want := range []string{"get", "a", "b"} {
							row := Rec{"res": res, "get": gk, "call": ck, "err": ek, "meta": mk, "want": want}
							c := httpCase{method: "GET", path: "/api/m", access: [3]string{"rawacc:" + payload, "", mv}}
							if want != "get" {
								c.method, c.path = "POST", "/api/m/"+want
							}
							httpRowTo(t, cfg0(), row, c)
							body, _ := row["body"].(string)
							row["leak"] = strings.Contains(body, `"x":`) || strings.Contains(body, `"ok":`)
							enc.Encode(row)
						}
					}
				}
			}
		}
	}
}

func cfg0() ScenarioCfg { return ScenarioCfg{} }

// TestTableHTTPToken: the token carried by the requests of an HTTP call.  The service sets / replaces / revokes the
// temporary connection's token while the header-auth and the access request are outstanding; every later request
// must carry the token the connection holds when that request is sent.
func TestTableHTTPToken(t *testing.T) {
	enc, done := openOut(t, "httptoken")
	defer done()
	tokOf := func(r *mqReq) string {
		var p struct {
			Token json.RawMessage `json:"token"`
		}
		json.Unmarshal(r.payload, &p)
		if len(p.Token) == 0 || string(p.Token) == "null" {
			return "nil"
		}
		return string(p.Token)
	}
	for _, method := range []string{"POST", "PUT"} {
		for _, init := range []string{"nil", `"t1"`} {
			for _, evt := range []string{"none", "nil", `"t2"`} {
				row := Rec{"method": method, "init": init, "evt": evt}
				synctest.Test(t, func(t *testing.T) {
					cfg := ScenarioCfg{Free: true, Family: "http", Resources: map[string]SimRes{"m": {Kind: "m", M: map[string]Val{"x": {T: "p", V: "1"}}}}}
					path := "/api/m/act"
					if method == "PUT" {
						cfg.Mapped = true
						path = "/api/m"
					}
					if init != "nil" {
						cfg.HeaderAuth = "auth.login"
					}
					w := NewWorld(t, cfg)
					mark := len(w.Log())
					w.Do(Step{Op: "http", C: "h1", Method: method, Path: path})
					seen := []any{}
					for i := 0; i < 10; i++ {
						rs := w.mq.pendingReqs()
						if len(rs) == 0 {
							break
						}
						r := rs[0]
						var pl struct {
							CID    string `json:"cid"`
							IsHTTP bool   `json:"isHttp"`
						}
						json.Unmarshal(r.payload, &pl)
						w.mu.Lock()
						own := w.symCID["h1"]
						w.mu.Unlock()
						// the id the request carries is the id of the temporary connection (the one its conn.<cid> subject is made of)
						seen = append(seen, map[string]any{"t": r.typ, "tok": tokOf(r), "cid": pl.CID != "" && pl.CID == own, "http": pl.IsHTTP})
						switch {
						case r.typ == "auth" && cfg.HeaderAuth != "":
							w.Do(Step{Op: "token", C: "h1", Tok: init})
						case r.typ == "access" && evt != "none":
							tok := evt
							if tok == "nil" {
								tok = "null"
							}
							w.Do(Step{Op: "token", C: "h1", Tok: tok})
						}
						synctest.Wait()
						w.sim.reply(r, "ok", "")
						synctest.Wait()
						w.drainFrames()
					}
					w.Drain()
					for _, r := range w.Log()[mark:] {
						if r["e"] == "httpres" {
							row["status"] = r["status"]
						}
					}
					row["reqs"] = seen
					w.Teardown()
				})
				if _, ok := row["status"]; !ok {
					row["status"] = 0
				}
				enc.Encode(row)
			}
		}
	}
}

// TestTableHTTPConn: what the temporary connection of an HTTP request leaves behind.  Whatever the outcome of the
// request (granted, refused, failed or timed out at header auth, access, get, a referenced resource's get, or the
// call), once the response is written nothing is outstanding or registered on the connection's behalf, and after the
// eviction delay the cache is empty again.
func TestTableHTTPConn(t *testing.T) {
	enc, done := openOut(t, "httpconn")
	defer done()
	outs := []string{"ok", "denied", "code:test.custom", "timeout", "notFound"}
	res := map[string]SimRes{
		"m": {Kind: "m", M: map[string]Val{"x": {T: "p", V: "1"}}},
		"p": {Kind: "m", M: map[string]Val{"r": {T: "r", V: "m"}, "s": {T: "r", V: "n"}}},
		"n": {Kind: "c", C: []Val{{T: "p", V: "1"}}},
	}
	for _, method := range []string{"GET", "POST"} {
		for _, target := range []string{"m", "p"} {
			for _, hauth := range []string{"", "ok", "code:test.custom", "timeout", "direct"} {
				for _, acc := range append([]string{"direct"}, outs...) {
					for _, fin := range outs {
						if fin == "denied" || (acc == "notFound" && fin != "ok") {
							continue
						}
						row := Rec{"method": method, "target": target, "hauth": hauth, "access": acc, "final": fin}
						synctest.Test(t, func(t *testing.T) {
							cfg := ScenarioCfg{Free: true, Family: "http", Resources: res}
							if hauth != "" {
								cfg.HeaderAuth = "auth.login"
							}
							path := "/api/" + target
							if method == "POST" {
								path += "/act"
							}
							w := NewWorld(t, cfg)
							mark := len(w.Log())
							w.Do(Step{Op: "http", C: "h1", Method: method, Path: path})
							nreq := 0
							for i := 0; i < 12; i++ {
								rs := w.mq.pendingReqs()
								if len(rs) == 0 {
									break
								}
								r := rs[len(rs)-1] // the youngest first: answers arrive out of order
								out := fin
								switch {
								case r.typ == "auth" && cfg.HeaderAuth != "":
									out = hauth
								case r.typ == "access":
									out = acc
								case r.typ == "get" && r.sname != target && fin != "ok":
									out = "ok" // the referenced resource is there; the failing one is the target
								}
								if r.typ == "get" && target == "p" && r.sname == "n" && fin == "timeout" {
									out = "timeout" // ... unless the run is about timeouts: the second reference times out too
								}
								nreq++
								if out == "direct" {
									w.sim.reply(r, "ok", "", `{"status":403}`) // a meta status that answers the HTTP request by itself
								} else {
									w.sim.reply(r, out, "")
								}
								synctest.Wait()
								w.drainFrames()
							}
							for _, r := range w.Log()[mark:] {
								if r["e"] == "httpres" {
									row["status"] = r["status"]
								}
							}
							connSubs, count := 0, 0
							for _, n := range w.mq.subNames() {
								if strings.HasPrefix(n, "conn.") {
									connSubs++
								}
							}
							snap := w.snapshot()
							for _, e := range snap.Cache {
								count += e.Count
							}
							row["nreq"], row["pending"], row["connsubs"], row["count"], row["conns"] = nreq, len(w.mq.pendingReqs()), connSubs, count, len(snap.Conns)
							time.Sleep(6 * time.Second)
							synctest.Wait()
							w.Drain()
							time.Sleep(6 * time.Second)
							synctest.Wait()
							w.Drain()
							snap = w.snapshot()
							subsAfter := 0
							for _, n := range w.mq.subNames() {
								if !strings.HasPrefix(n, "system") { // the gateway's own system.* subscription stays
									subsAfter++
								}
							}
							row["cacheAfter"], row["subsAfter"], row["pendingAfter"] = len(snap.Cache), subsAfter, len(w.mq.pendingReqs())
							w.Teardown()
						})
						if _, ok := row["status"]; !ok {
							row["status"] = 0
						}
						enc.Encode(row)
					}
				}
			}
		}
	}
}
