package gw

import (
	"sort"
	"strconv"
	"strings"

	"github.com/resgateio/resgate/server/mq"
)

// Malformed or inapplicable service messages (C15). Every shape must be
// discarded by the gateway as a whole.

// eventShapes: shape -> (event name, payload).
var eventShapes = map[string][2]string{
	"chg-partial":        {"change", `{"values":{"a1":"changed","zbad":[1,2]}}`},
	"chg-partial-obj":    {"change", `{"values":{"a1":"changed","zbad":{"x":1}}}`},
	"chg-badval-first":   {"change", `{"values":{"abad":{"x":1},"z":"v"}}`},
	"chg-ambiguous":      {"change", `{"values":{"a1":12,"k":{"rid":"a","action":"delete"}}}`},
	"chg-unknown-action": {"change", `{"values":{"a1":12,"k":{"action":"purge"}}}`},
	"chg-emptyrid":       {"change", `{"values":{"a1":12,"k":{"rid":""}}}`},
	"chg-badrid":         {"change", `{"values":{"a1":12,"k":{"rid":"a..b"}}}`},
	"chg-wildrid":        {"change", `{"values":{"a1":12,"k":{"rid":"a.*"}}}`},
	"chg-notobject":      {"change", `{"values":[1,2]}`},
	"chg-badjson":        {"change", `{"values":`},
	"chg-null":           {"change", `null`},
	"chg-novalues":       {"change", `{}`},
	"chg-string":         {"change", `"x"`},
	"add-neg":            {"add", `{"idx":-1,"value":1}`},
	"add-oob":            {"add", `{"idx":99,"value":1}`},
	"add-noidx-badval":   {"add", `{"value":[1]}`},
	"add-badvalue":       {"add", `{"idx":0,"value":[1]}`},
	"add-delete-action":  {"add", `{"idx":0,"value":{"action":"delete"}}`},
	"add-stridx":         {"add", `{"idx":"0","value":1}`},
	"add-float":          {"add", `{"idx":0.5,"value":1}`},
	"add-huge":           {"add", `{"idx":100000000000000000000,"value":1}`},
	"add-badjson":        {"add", `{"idx":0,`},
	"add-emptyrid":       {"add", `{"idx":0,"value":{"rid":""}}`},
	"remove-neg":         {"remove", `{"idx":-1}`},
	"remove-oob":         {"remove", `{"idx":99}`},
	"remove-str":         {"remove", `{"idx":"1"}`},
	// boundary indexes: $LEN = the collection's current length (first invalid index of a remove), $LEN1 = one more
	// (first invalid index of an add); 0 for a resource that is not a collection
	"remove-len":         {"remove", `{"idx":$LEN}`},
	"add-len1":           {"add", `{"idx":$LEN1,"value":1}`},
	"remove-badjson":     {"remove", `[`},
	"evt-noname":         {"", `{}`},
	"query-nosubject":    {"query", `{"subject":""}`},
	"query-badjson":      {"query", `{"subject":`},
	"query-numsubject":   {"query", `{"subject":12}`},
}

// connShapes: malformed conn.<cid>.token events, delivered to every live
// connection; sysShapes: malformed system events. shape -> (event, payload).
var connShapes = map[string][2]string{
	"tok-empty":     {"token", ``},
	"tok-badjson":   {"token", `{"token":`},
	"tok-array":     {"token", `[1]`},
	"tok-string":    {"token", `"x"`},
	"tok-tidnum":    {"token", `{"token":{"u":1},"tid":12}`},
	"tok-unknownev": {"frobnicate", `{}`},
}

var sysShapes = map[string][2]string{
	"sys-reset-empty":      {"reset", ``},
	"sys-reset-badjson":    {"reset", `{"resources":`},
	"sys-reset-string":     {"reset", `{"resources":"a"}`},
	"sys-reset-nums":       {"reset", `{"resources":[1,2],"access":[3]}`},
	"sys-treset-empty":     {"tokenReset", ``},
	"sys-treset-badjson":   {"tokenReset", `{"tids":`},
	"sys-treset-string":    {"tokenReset", `{"tids":"tid1","subject":"auth.tokenreset"}`},
	"sys-treset-nosubject": {"tokenReset", `{"tids":["tid1"]}`},
	"sys-unknown":          {"frobnicate", `{}`},
}

// replyShapes: shape -> raw response payload.
var replyShapes = map[string]string{
	"both":             `{"result":{"model":{"x":1},"collection":[1]}}`,
	"neither":          `{"result":{}}`,
	"noresult":         `{}`,
	"badjson":          `{"result":`,
	"empty":            ``,
	"null-result":      `{"result":null}`,
	"model-badvalue":   `{"result":{"model":{"k":[1]}}}`,
	"model-objvalue":   `{"result":{"model":{"a":1,"k":{"x":1}}}}`,
	"coll-delete":      `{"result":{"collection":[1,{"action":"delete"}]}}`,
	"model-array":      `{"result":{"model":[1]}}`,
	"coll-object":      `{"result":{"collection":{"a":1}}}`,
	"model-emptyrid":   `{"result":{"model":{"k":{"rid":""}}}}`,
	"model-wildrid":    `{"result":{"model":{"k":{"rid":"a.>"}}}}`,
	"error-nocode":     `{"error":{"message":"x"}}`,
	"error-string":     `{"error":"boom"}`,
	"get-string":       `{"result":{"get":"yes"}}`,
	"result-array":     `{"result":[1]}`,
	"resource-badrid":  `{"resource":{"rid":"a..b"}}`,
	"resource-empty":   `{"resource":{"rid":""}}`,
	"resource-wild":    `{"resource":{"rid":"a.*"}}`,
	"resource-num":     `{"resource":{"rid":12}}`,
	"events-notarray":  `{"result":{"events":{}}}`,
	"events-badevent":  `{"result":{"events":[{"event":"add","data":{"idx":99,"value":1}}]}}`,
	"events-removelen": `{"result":{"events":[{"event":"remove","data":{"idx":$LEN}}]}}`,
	"events-badchange": `{"result":{"events":[{"event":"change","data":{"values":{"a1":"changed","zbad":[1]}}}]}}`,
	"events-and-model": `{"result":{"events":[],"model":{"a":1}}}`,
	"meta-string":      `{"result":{"get":true},"meta":"x"}`,
	"meta-status-str":  `{"result":{"get":true},"meta":{"status":"404"}}`,
	"meta-header-str":  `{"result":{"get":true},"meta":{"header":"x"}}`,
}

// replyMalformed: the request types for which a reply shape is malformed
// (server/codec Decode*Response). For the other types the payload happens to
// be a well-formed answer (an access result without grants, an arbitrary call
// result, a plain model for a get request), so the shape is not used there.
// "*" = every request type.
var replyMalformed = map[string]string{
	"both":             "get query",
	"neither":          "get",
	"noresult":         "*",
	"badjson":          "*",
	"empty":            "*",
	"null-result":      "get query access",
	"model-badvalue":   "get query",
	"model-objvalue":   "get query",
	"coll-delete":      "get query",
	"model-array":      "get query",
	"coll-object":      "get query",
	"model-emptyrid":   "get query",
	"model-wildrid":    "get query",
	"error-nocode":     "*",
	"error-string":     "*",
	"get-string":       "get access",
	"result-array":     "get query access",
	"resource-badrid":  "*",
	"resource-empty":   "*",
	"resource-wild":    "*",
	"resource-num":     "*",
	"events-notarray":  "get query",
	"events-badevent":  "get query",
	"events-removelen": "get query",
	"events-badchange": "get query",
	"events-and-model": "query",
	"meta-string":      "get access call auth",
	"meta-status-str":  "get access call auth",
	"meta-header-str":  "get access call auth",
}

// withLen substitutes the boundary indexes of the content the gateway caches for the key: what was last handed to it
// in a response (sent=true: query requests) or the service's current content, which events keep the cache in step
// with - unless it was mutated silently; ok=false when the cached length is not known.
func (s *Sim) withLen(raw, k string, sent bool) (string, bool) {
	if !strings.Contains(raw, "$LEN") {
		return raw, true
	}
	r := s.lookup(k)
	if sent {
		r = s.sent[k]
	} else if s.mut[k] {
		return "", false
	}
	if r == nil {
		return "", false
	}
	n := 0
	if r.Kind == "c" {
		n = len(r.C)
	}
	raw = strings.ReplaceAll(raw, "$LEN1", strconv.Itoa(n+1))
	return strings.ReplaceAll(raw, "$LEN", strconv.Itoa(n)), true
}

func sortedKeys(m map[string]string) []string {
	ks := make([]string, 0, len(m))
	for k := range m {
		ks = append(ks, k)
	}
	sort.Strings(ks)
	return ks
}

func malformedFor(shape, typ string) bool {
	m := replyMalformed[shape]
	if m == "*" {
		return true
	}
	for _, t := range strings.Fields(m) {
		if t == typ {
			return true
		}
	}
	return false
}

// inject delivers a malformed event of the given shape on the resource, if
// the gateway is subscribed to it.
func (s *Sim) inject(sname, shape string) bool {
	w := s.w
	if sh, ok := sysShapes[shape]; ok {
		if !w.mq.hasSub("system") {
			return false
		}
		rec := w.mevtRec("system", sh[0])
		rec["bad"], rec["shape"] = true, shape
		w.add(rec)
		return w.mq.deliver("system", sh[0], []byte(sh[1]))
	}
	if sh, ok := connShapes[shape]; ok {
		w.mu.Lock()
		cids := map[string]string{}
		for sym, cid := range w.symCID {
			cids[sym] = cid
		}
		w.mu.Unlock()
		done := false
		for _, sym := range sortedKeys(cids) {
			if !w.mq.hasSub("conn." + cids[sym]) {
				continue
			}
			rec := w.mevtRec("conn", sh[0])
			rec["c"], rec["bad"], rec["shape"] = sym, true, shape
			w.add(rec)
			w.mq.deliver("conn."+cids[sym], sh[0], []byte(sh[1]))
			done = true
		}
		return done
	}
	sh, ok := eventShapes[shape]
	if !ok {
		return false
	}
	w.mu.Lock()
	real := sname
	for sym, cid := range w.symCID {
		real = strings.ReplaceAll(real, sym, cid)
	}
	w.mu.Unlock()
	ns := "event." + real
	if !w.mq.hasSub(ns) {
		return false
	}
	payload, ok := s.withLen(sh[1], sname, false)
	if !ok {
		return false
	}
	rec := w.mevtRec("event", sh[0])
	rec["n"], rec["bad"], rec["shape"] = sname, true, shape
	w.add(rec)
	return w.mq.deliver(ns, sh[0], []byte(payload))
}

// replyBad answers a pending request with a malformed response.
func (s *Sim) replyBad(r *mqReq, shape string) bool {
	raw, ok := replyShapes[shape]
	if !ok {
		return false
	}
	if !malformedFor(shape, r.typ) {
		return false
	}
	raw, ok = s.withLen(raw, key(r.sname, s.normQ(r.sname, r.query)), r.typ == "query")
	if !ok {
		return false
	}
	if !s.w.mq.take(r) {
		return false
	}
	rec := Rec{"e": "mres", "k": r.k, "t": r.typ, "n": r.sname, "q": r.query, "key": key(r.sname, r.query), "nkey": key(r.sname, r.query), "c": r.csym, "out": "bad:" + shape,
		"calllist": []any{}, "meth": r.meth, "kind": "error", "val": map[string]any{}, "list": []any{}, "nq": "", "code": "system.internalError", "get": false, "call": "",
		"rrid": "", "events": []any{}, "bad": true}
	s.w.add(rec)
	var err error
	var _ = mq.ErrRequestTimeout
	r.cb(r.subj, []byte(raw), err)
	return true
}
