package gw

import (
	"fmt"
	"net"
	"net/http"
	"testing"
	"time"

	"github.com/resgateio/resgate/server"
)

// TestTableLifeHTTP: Start / Stop of a Service with its real HTTP listener
// (loopback, real time - the listener cannot live in a synctest bubble):
// restarting at once after a Stop, and a listener that cannot be opened.
// Every row states what was observed; LifeHTTPCheck.tla says what C20 asks.
func TestTableLifeHTTP(t *testing.T) {
	enc, done := openOut(t, "lifehttp")
	defer done()
	freePort := func() int {
		ln, err := net.Listen("tcp", "127.0.0.1:0")
		if err != nil {
			t.Fatal(err)
		}
		p := ln.Addr().(*net.TCPAddr).Port
		ln.Close()
		return p
	}
	metricsOn := false
	newSvc := func(port int) (*server.Service, *World) {
		w := &World{cidSym: map[string]string{}, symCID: map[string]string{}, evIDs: map[interface{}]int{}, marks: map[string][]Rec{}, clients: map[string]*Client{}, https: map[string]*httpReq{}}
		w.mq = newMockMQ(w)
		var sc server.Config
		sc.SetDefault()
		addr := "127.0.0.1"
		sc.Addr = &addr
		sc.Port = uint16(port)
		sc.MetricsPort = 0
		if metricsOn {
			sc.MetricsPort = uint16(freePort())
		}
		svc, err := server.NewService(w.mq, sc)
		if err != nil {
			t.Fatalf("NewService: %v", err)
		}
		svc.SetLogger(nopLogger{w})
		return svc, w
	}
	// the stop channel yields within d: (yielded, cause)
	waitStop := func(ch <-chan error, d time.Duration) (bool, string) {
		if ch == nil {
			return true, "nil channel"
		}
		select {
		case err, ok := <-ch:
			if !ok {
				return true, "closed"
			}
			if err == nil {
				return true, ""
			}
			return true, err.Error()
		case <-time.After(d):
			return false, ""
		}
	}
	get := func(port int) int {
		c := http.Client{Timeout: 500 * time.Millisecond}
		resp, err := c.Get(fmt.Sprintf("http://127.0.0.1:%d/nothing-here", port))
		if err != nil {
			return 0
		}
		resp.Body.Close()
		return resp.StatusCode
	}
	rounds := envInt("VERIF_LIFEHTTP_ROUNDS", 5)
	// 1. Stop, then Start at once, several times: the new run must not be stopped by anything of the old one
	// (second half of the rounds: with the metrics endpoint listening too)
	for i := 0; i < 2*rounds; i++ {
		metricsOn = i >= rounds
		port := freePort()
		svc, _ := newSvc(port)
		row := Rec{"kind": "restart", "round": i, "metrics": metricsOn}
		if err := svc.Start(); err != nil {
			row["startErr"] = err.Error()
			enc.Encode(row)
			continue
		}
		time.Sleep(20 * time.Millisecond)
		ch1 := svc.StopChannel()
		svc.Stop(nil)
		y1, c1 := waitStop(ch1, 2*time.Second)
		err2 := svc.Start()
		ch2 := svc.StopChannel()
		y2, c2 := waitStop(ch2, 400*time.Millisecond) // must NOT yield: nobody stopped the second run
		status := 0
		if !y2 {
			status = get(port)
		}
		row["firstStopped"], row["firstCause"], row["restartErr"] = y1, c1, fmt.Sprint(err2)
		row["secondStoppedByItself"], row["secondCause"], row["served"] = y2, c2, status
		svc.Stop(nil)
		y3, _ := waitStop(ch2, 2*time.Second)
		row["secondStopped"] = y3 || y2
		enc.Encode(row)
	}
	metricsOn = false
	// 2. the listener cannot be opened: the service must fail-stop with the cause, and start again once the port is free
	for i := 0; i < 2; i++ {
		ln, err := net.Listen("tcp", "127.0.0.1:0")
		if err != nil {
			t.Fatal(err)
		}
		port := ln.Addr().(*net.TCPAddr).Port
		svc, w := newSvc(port)
		row := Rec{"kind": "listenfail", "round": i}
		errS := svc.Start()
		ch := svc.StopChannel()
		y, cause := waitStop(ch, 3*time.Second)
		row["startErr"], row["stopped"], row["cause"] = fmt.Sprint(errS), y || errS != nil, cause
		row["mqClosed"] = w.mq.IsClosed()
		ln.Close()
		// a later Start works (bounded: a Start that blocks is a failure of its own)
		started := make(chan error, 1)
		go func() { started <- svc.Start() }()
		select {
		case e := <-started:
			row["restartErr"] = fmt.Sprint(e)
			time.Sleep(50 * time.Millisecond)
			row["served"] = get(port)
			ch2 := svc.StopChannel()
			svc.Stop(nil)
			y2, _ := waitStop(ch2, 2*time.Second)
			row["secondStopped"] = y2
		case <-time.After(3 * time.Second):
			row["restartErr"], row["served"], row["secondStopped"] = "Start blocked", 0, false
		}
		enc.Encode(row)
	}
}
