package gw

import (
	"encoding/json"
	"errors"
	"strings"

	"github.com/resgateio/resgate/server/mq"
)

// maxControlLine mirrors nats.MAX_CONTROL_LINE_SIZE.
const maxControlLine = 4096

type mqSub struct {
	m  *MockMQ
	ns string
	cb mq.Response
}

type mqReq struct {
	k       int
	subj    string
	payload []byte
	cb      mq.Response
	typ     string // get, access, call, auth, query, other
	name    string // real resource name
	sname   string // symbolic resource name
	meth    string
	query   string
	csym    string
	tooLong bool
}

// MockMQ is the harness-owned messaging client. It never acts on its own:
// responses and events are delivered only by the scheduler.
type MockMQ struct {
	w       *World
	subs    map[string]*mqSub
	pending []*mqReq
	nextK   int
	closed  bool
	onClose func(error)
	drain   []Step // receive buffer handed over by the next Close
	qsubj   map[string]string // query subject -> symbolic resource name
}

func newMockMQ(w *World) *MockMQ {
	return &MockMQ{w: w, subs: map[string]*mqSub{}, qsubj: map[string]string{}}
}

// Connect implements mq.Client.
func (m *MockMQ) Connect() error {
	m.w.mu.Lock()
	m.closed = false
	m.w.mu.Unlock()
	return nil
}

// IsClosed implements mq.Client.
func (m *MockMQ) IsClosed() bool {
	m.w.mu.Lock()
	defer m.w.mu.Unlock()
	return m.closed
}

// SetClosedHandler implements mq.Client.
func (m *MockMQ) SetClosedHandler(cb func(error)) {
	m.w.mu.Lock()
	m.onClose = cb
	m.w.mu.Unlock()
}

// setDrain sets what the client still holds in its receive buffer when it is
// closed next: like the NATS adapter, Close hands that over before it returns.
func (m *MockMQ) setDrain(d []Step) {
	m.w.mu.Lock()
	m.drain = d
	m.w.mu.Unlock()
}

// Close implements mq.Client. What is still buffered is delivered first;
// pending requests are dropped: no callback is made after Close returns.
func (m *MockMQ) Close() {
	m.w.mu.Lock()
	ds := m.drain
	m.drain = nil
	m.w.mu.Unlock()
	for _, d := range ds {
		if d.Op == "event" || d.Op == "reply" {
			ok := m.w.do(d)
			m.w.add(Rec{"e": "drained", "op": d.Op, "done": ok})
		}
	}
	m.w.mu.Lock()
	m.closed = true
	m.pending = nil
	m.subs = map[string]*mqSub{}
	m.w.logAdd(Rec{"e": "mclose"})
	m.w.mu.Unlock()
}

// Subscribe implements mq.Client.
func (m *MockMQ) Subscribe(ns string, cb mq.Response) (mq.Unsubscriber, error) {
	w := m.w
	w.mu.Lock()
	defer w.mu.Unlock()
	if strings.HasPrefix(ns, "conn.") && w.pendSym != "" {
		cid := ns[5:]
		if _, ok := w.cidSym[cid]; !ok {
			w.cidSym[cid] = w.pendSym
			w.symCID[w.pendSym] = cid
		}
	}
	sns := w.symText(ns)
	if len(ns) > maxControlLine-2 {
		w.logAdd(Rec{"e": "msubfail", "ns": sns, "len": len(ns)})
		return nil, mq.ErrSubjectTooLong
	}
	if m.closed {
		w.logAdd(Rec{"e": "msubfail", "ns": sns, "len": len(ns)})
		return nil, errors.New("mq closed")
	}
	dup := false
	if _, ok := m.subs[ns]; ok {
		dup = true
	}
	s := &mqSub{m: m, ns: ns, cb: cb}
	m.subs[ns] = s
	kind, n, c := nsParts(sns)
	w.logAdd(Rec{"e": "msub", "ns": sns, "kind": kind, "n": n, "c": c, "dup": dup, "bad": !validSubject(ns), "rawcid": strings.Contains(ns, "{cid}")})
	return s, nil
}

// Unsubscribe implements mq.Unsubscriber.
func (s *mqSub) Unsubscribe() error {
	w := s.m.w
	w.mu.Lock()
	defer w.mu.Unlock()
	known := s.m.subs[s.ns] == s
	if known {
		delete(s.m.subs, s.ns)
	}
	sns := w.symText(s.ns)
	kind, n, c := nsParts(sns)
	w.logAdd(Rec{"e": "munsub", "ns": sns, "kind": kind, "n": n, "c": c, "known": known})
	return nil
}

// SendRequest implements mq.Client.
func (m *MockMQ) SendRequest(subj string, payload []byte, cb mq.Response) {
	w := m.w
	w.mu.Lock()
	defer w.mu.Unlock()
	m.nextK++
	r := &mqReq{k: m.nextK, subj: subj, payload: payload, cb: cb}
	var p struct {
		CID    string          `json:"cid"`
		Token  json.RawMessage `json:"token"`
		Query  string          `json:"query"`
		IsHTTP bool            `json:"isHttp"`
	}
	json.Unmarshal(payload, &p)
	r.query = w.symText(p.Query) // a {cid} tag expanded in the query appears as the connection symbol
	i := strings.IndexByte(subj, '.')
	typ, rest := "other", ""
	if i > 0 {
		typ, rest = subj[:i], subj[i+1:]
	}
	switch typ {
	case "get", "access":
		r.typ, r.name = typ, rest
	case "call", "auth":
		r.typ = typ
		j := strings.LastIndexByte(rest, '.')
		if j >= 0 {
			r.name, r.meth = rest[:j], rest[j+1:]
		} else {
			r.name = rest
		}
	default:
		if n, ok := m.qsubj[subj]; ok {
			r.typ, r.sname = "query", n
		} else {
			r.typ = "other"
		}
	}
	if r.sname == "" {
		r.sname = w.symText(r.name)
	}
	r.csym = ""
	if p.CID != "" {
		r.csym = w.symOf(p.CID)
	}
	tok := "nil"
	if len(p.Token) > 0 && string(p.Token) != "null" {
		tok = string(p.Token)
	}
	r.tooLong = len(subj)+7+22 > maxControlLine
	rec := Rec{"e": "mreq", "k": r.k, "t": r.typ, "n": r.sname, "q": r.query, "key": key(r.sname, r.query), "meth": r.meth,
		"c": r.csym, "tok": tok, "http": p.IsHTTP, "subj": w.symText(subj), "bad": !validSubject(subj),
		"closed": m.closed, "long": r.tooLong, "rawcid": strings.Contains(subj, "{cid}") || strings.Contains(p.Query, "{cid}")}
	w.logAdd(rec)
	if !m.closed {
		m.pending = append(m.pending, r)
	}
}

// nsParts splits a symbolic subscription namespace into its kind and the
// resource name or connection id.
func nsParts(sns string) (kind, n, c string) {
	switch {
	case strings.HasPrefix(sns, "event."):
		return "event", sns[6:], ""
	case strings.HasPrefix(sns, "conn."):
		return "conn", "", sns[5:]
	}
	return sns, "", ""
}

// validSubject reports whether the subject consists solely of non-empty
// dot-separated tokens of printable non-space ASCII without *, > or ?.
func validSubject(s string) bool {
	if s == "" {
		return false
	}
	start := true
	for i := 0; i < len(s); i++ {
		c := s[i]
		if c == '.' {
			if start {
				return false
			}
			start = true
			continue
		}
		if c <= 32 || c >= 127 || c == '*' || c == '>' || c == '?' {
			return false
		}
		start = false
	}
	return !start
}

// pendingReqs returns the pending requests in issue order.
func (m *MockMQ) pendingReqs() []*mqReq {
	m.w.mu.Lock()
	defer m.w.mu.Unlock()
	return append([]*mqReq{}, m.pending...)
}

func (m *MockMQ) take(r *mqReq) bool {
	m.w.mu.Lock()
	defer m.w.mu.Unlock()
	for i, x := range m.pending {
		if x == r {
			m.pending = append(m.pending[:i], m.pending[i+1:]...)
			return true
		}
	}
	return false
}

// failAll times out every pending request (teardown only).
func (m *MockMQ) failAll() {
	for _, r := range m.pendingReqs() {
		if m.take(r) {
			r.cb("", nil, mq.ErrRequestTimeout)
		}
	}
}

// deliver hands an event to the subscription of its namespace, if any.
func (m *MockMQ) deliver(ns, ev string, payload []byte) bool {
	m.w.mu.Lock()
	s := m.subs[ns]
	m.w.mu.Unlock()
	if s == nil {
		return false
	}
	s.cb(ns+"."+ev, payload, nil)
	return true
}

func (m *MockMQ) hasSub(ns string) bool {
	m.w.mu.Lock()
	defer m.w.mu.Unlock()
	return m.subs[ns] != nil
}

// subNames returns the symbolic names of all live subscriptions.
func (m *MockMQ) subNames() []string {
	m.w.mu.Lock()
	defer m.w.mu.Unlock()
	out := []string{}
	for ns := range m.subs {
		out = append(out, m.w.symText(ns))
	}
	sortStrings(out)
	return out
}

// lose simulates loss of the messaging connection.
func (m *MockMQ) lose(err error) {
	m.w.mu.Lock()
	cb := m.onClose
	m.closed = true
	if len(m.drain) == 0 {
		// (otherwise the receive buffer is handed over, and everything dropped, by Close)
		m.pending = nil
		m.subs = map[string]*mqSub{}
	}
	m.w.mu.Unlock()
	if cb != nil {
		go cb(err)
	}
}
