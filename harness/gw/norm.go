package gw

import (
	"bytes"
	"encoding/json"
	"strings"
)

// normVal classifies a JSON value sent to a client, purely syntactically.
func normVal(raw json.RawMessage) Val {
	raw = bytes.TrimSpace(raw)
	if len(raw) == 0 {
		return Val{T: "p", V: "null"}
	}
	if raw[0] == '{' {
		var o struct {
			RID    *string         `json:"rid"`
			Soft   bool            `json:"soft"`
			Action *string         `json:"action"`
			Data   json.RawMessage `json:"data"`
		}
		if json.Unmarshal(raw, &o) == nil {
			switch {
			case o.RID != nil && o.Soft:
				return Val{T: "s", V: *o.RID}
			case o.RID != nil:
				return Val{T: "r", V: *o.RID}
			case o.Action != nil:
				return Val{T: "x", V: ""}
			case o.Data != nil:
				return Val{T: "d", V: compact(o.Data)}
			}
		}
		return Val{T: "?", V: compact(raw)}
	}
	if raw[0] == '[' {
		return Val{T: "?", V: compact(raw)}
	}
	return Val{T: "p", V: compact(raw)}
}

func compact(raw []byte) string {
	var b bytes.Buffer
	if json.Compact(&b, raw) != nil {
		return string(raw)
	}
	return b.String()
}

type rawSet struct {
	Models      map[string]map[string]json.RawMessage `json:"models"`
	Collections map[string][]json.RawMessage          `json:"collections"`
	Errors      map[string]struct {
		Code string `json:"code"`
	} `json:"errors"`
}

func normSet(rs *rawSet) map[string]any {
	models, colls, errs := map[string]any{}, map[string]any{}, map[string]any{}
	if rs != nil {
		for rid, m := range rs.Models {
			o := map[string]any{}
			for k, v := range m {
				o[k] = normVal(v)
			}
			models[rid] = o
		}
		for rid, c := range rs.Collections {
			o := make([]any, len(c))
			for i, v := range c {
				o[i] = normVal(v)
			}
			colls[rid] = o
		}
		for rid, e := range rs.Errors {
			errs[rid] = e.Code
		}
	}
	return map[string]any{"models": models, "collections": colls, "errors": errs}
}

// normFrame turns a frame received by a client into a trace record. w.mu is
// held by the caller.
func (w *World) normFrame(c *Client, frame []byte) Rec {
	leak := w.leaks(frame)
	var f struct {
		ID     *int            `json:"id"`
		Result json.RawMessage `json:"result"`
		Error  *struct {
			Code    json.RawMessage `json:"code"`
			Message json.RawMessage `json:"message"`
		} `json:"error"`
		Event *string         `json:"event"`
		Data  json.RawMessage `json:"data"`
	}
	if err := json.Unmarshal(frame, &f); err != nil {
		return Rec{"e": "cbad", "c": c.sym, "raw": string(frame), "leak": leak}
	}
	if f.Event != nil {
		return w.normEvent(c, *f.Event, f.Data, leak)
	}
	if f.ID == nil {
		return Rec{"e": "cbad", "c": c.sym, "raw": string(frame), "leak": leak}
	}
	rec := Rec{"e": "cres", "c": c.sym, "id": *f.ID, "ok": f.Error == nil, "code": "", "shape": true,
		"set": normSet(nil), "rrid": "", "haspayload": false, "leak": leak}
	if f.Error != nil {
		var code, msg string
		if json.Unmarshal(f.Error.Code, &code) != nil || json.Unmarshal(f.Error.Message, &msg) != nil {
			rec["shape"] = false
		}
		rec["code"] = code
		rec["rn"] = map[string]any{}
		return rec
	}
	if len(f.Result) > 0 && f.Result[0] == '{' {
		var rs rawSet
		var o struct {
			RID     *string         `json:"rid"`
			Payload json.RawMessage `json:"payload"`
		}
		json.Unmarshal(f.Result, &rs)
		json.Unmarshal(f.Result, &o)
		rec["set"] = normSet(&rs)
		if o.RID != nil {
			rec["rrid"] = *o.RID
		}
		rec["haspayload"] = o.Payload != nil
	}
	rec["rn"] = w.ridNames(c.sym, rec["set"].(map[string]any), rec["rrid"])
	return rec
}

func (w *World) normEvent(c *Client, name string, data json.RawMessage, leak []string) Rec {
	i := strings.LastIndexByte(name, '.')
	rid, ev := name, ""
	if i >= 0 {
		rid, ev = name[:i], name[i+1:]
	}
	rec := Rec{"e": "cev", "c": c.sym, "rid": rid, "ev": ev, "idx": -1, "val": noVal, "vals": map[string]any{},
		"set": normSet(nil), "reason": "", "seq": 0, "leak": leak}
	var d struct {
		Idx    *int                       `json:"idx"`
		Value  json.RawMessage            `json:"value"`
		Values map[string]json.RawMessage `json:"values"`
		Reason *struct {
			Code string `json:"code"`
		} `json:"reason"`
		Seq *int `json:"seq"`
	}
	var rs rawSet
	if len(data) > 0 {
		json.Unmarshal(data, &d)
		json.Unmarshal(data, &rs)
	}
	rec["set"] = normSet(&rs)
	switch ev {
	case "change":
		vals := map[string]any{}
		for k, v := range d.Values {
			nv := normVal(v)
			vals[k] = nv
			if k == "_seq" {
				var n int
				if json.Unmarshal([]byte(nv.V), &n) == nil {
					rec["seq"] = n
				}
			}
		}
		rec["vals"] = vals
	case "add":
		if d.Idx != nil {
			rec["idx"] = *d.Idx
		}
		rec["val"] = normVal(d.Value)
	case "remove":
		if d.Idx != nil {
			rec["idx"] = *d.Idx
		}
	case "unsubscribe":
		if d.Reason != nil {
			rec["reason"] = d.Reason.Code
		}
	case "custom":
		if d.Seq != nil {
			rec["seq"] = *d.Seq
		}
	}
	rec["rn"] = w.ridNames(c.sym, rec["set"].(map[string]any), rid, rec["val"], rec["vals"])
	return rec
}

// normHTTP turns a completed HTTP response into a trace record. w.mu is held.
func (w *World) normHTTP(h *httpReq) Rec {
	body := h.rr.Body.Bytes()
	hdr := map[string]any{}
	for k, v := range h.rr.Header() {
		vs := make([]any, len(v))
		for i, x := range v {
			vs[i] = x
		}
		hdr[k] = vs
	}
	return Rec{"e": "httpres", "c": h.sym, "method": h.meth, "status": h.rr.Code, "body": string(body),
		"valid": len(body) == 0 || json.Valid(body), "leak": w.leaks(body), "hdr": hdr}
}

// ridInfo describes a client rid syntactically: service-facing name, query
// and cache key, with {cid} expanded to the symbolic connection id.
func (w *World) ridInfo(csym, rid string) map[string]any {
	n, q := w.splitRID(csym, rid)
	return map[string]any{"n": n, "q": q, "key": key(n, q)}
}

// ridNames collects ridInfo for every rid occurring in a normalised set and
// the given extra values.
func (w *World) ridNames(csym string, set map[string]any, extra ...any) map[string]any {
	out := map[string]any{}
	var visit func(v any)
	visit = func(v any) {
		switch x := v.(type) {
		case Val:
			if x.T == "r" || x.T == "s" {
				out[x.V] = w.ridInfo(csym, x.V)
			}
		case map[string]any:
			for _, y := range x {
				visit(y)
			}
		case []any:
			for _, y := range x {
				visit(y)
			}
		}
	}
	for _, grp := range []string{"models", "collections", "errors"} {
		if m, ok := set[grp].(map[string]any); ok {
			for rid, v := range m {
				out[rid] = w.ridInfo(csym, rid)
				visit(v)
			}
		}
	}
	for _, e := range extra {
		if s, ok := e.(string); ok {
			if s != "" {
				out[s] = w.ridInfo(csym, s)
			}
		} else {
			visit(e)
		}
	}
	return out
}

// splitRID splits a client rid into the symbolic service-facing name and query.
func (w *World) splitRID(csym, rid string) (string, string) {
	name, q := rid, ""
	if i := strings.IndexByte(rid, '?'); i >= 0 {
		name, q = rid[:i], rid[i+1:]
	}
	name = strings.ReplaceAll(name, "{cid}", csym)
	q = strings.ReplaceAll(q, "{cid}", csym)
	return name, q
}
