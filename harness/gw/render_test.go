package gw

import (
	"bytes"
	"encoding/json"
	"sort"
	"testing"
	"testing/synctest"
)

// jtree normalises a JSON document into an abstract tree: {"o":{k:tree}},
// {"a":[tree]} or {"p":raw}.
func jtree(raw []byte) any {
	raw = bytes.TrimSpace(raw)
	if len(raw) > 0 && raw[0] == '{' {
		var m map[string]json.RawMessage
		if json.Unmarshal(raw, &m) == nil {
			o := map[string]any{}
			for k, v := range m {
				o[k] = jtree(v)
			}
			return map[string]any{"o": o}
		}
	}
	if len(raw) > 0 && raw[0] == '[' {
		var l []json.RawMessage
		if json.Unmarshal(raw, &l) == nil {
			a := make([]any, len(l))
			for i, v := range l {
				a[i] = jtree(v)
			}
			return map[string]any{"a": a}
		}
	}
	return map[string]any{"p": compact(raw)}
}

type rval struct {
	T    string `json:"t"`
	V    string `json:"v"`
	Tree any    `json:"tree"`
}

// TestTableRender: GET of every resource graph of a bounded family through
// the real HTTP handler, for both API encodings.
func TestTableRender(t *testing.T) {
	enc, done := openOut(t, "render")
	defer done()
	full := envInt("VERIF_RENDER_FULL", 0) == 1
	dataRaw := `{"d":[1,"x"]}`
	nt := map[string]any{"p": ""}
	vals := []rval{{T: "p", V: "1", Tree: nt}, {T: "d", V: dataRaw, Tree: jtree([]byte(dataRaw))}, {T: "s", V: "r1", Tree: nt}, {T: "r", V: "r0", Tree: nt}, {T: "r", V: "r1", Tree: nt}, {T: "r", V: "r2", Tree: nt}}
	type resd struct {
		Kind string          `json:"k"`
		M    map[string]rval `json:"m"`
		C    []rval          `json:"c"`
	}
	keys := []string{"k", "q\"x"}
	var roots, mids, leafs []resd
	for _, a := range vals {
		mids = append(mids, resd{Kind: "m", M: map[string]rval{"k": a}}, resd{Kind: "c", C: []rval{a}})
		roots = append(roots, resd{Kind: "c", C: []rval{a}})
		for _, b := range vals {
			roots = append(roots, resd{Kind: "m", M: map[string]rval{keys[0]: a, keys[1]: b}}, resd{Kind: "c", C: []rval{a, b}})
		}
	}
	roots = append(roots, resd{Kind: "c", C: []rval{}}, resd{Kind: "m", M: map[string]rval{}})
	// second level: also empty resources and resources reaching the third level twice
	mids = append(mids, resd{Kind: "nf"}, resd{Kind: "c", C: []rval{}}, resd{Kind: "m", M: map[string]rval{}},
		resd{Kind: "c", C: []rval{vals[0], vals[5]}}, resd{Kind: "c", C: []rval{vals[5], vals[5]}},
		resd{Kind: "m", M: map[string]rval{"k": vals[5], "q": vals[5]}}, resd{Kind: "c", C: []rval{vals[5], vals[3]}})
	leafs = []resd{{Kind: "m", M: map[string]rval{"k": vals[0]}}, {Kind: "m", M: map[string]rval{"k": vals[3]}}, {Kind: "nf"},
		{Kind: "c", C: []rval{}}, {Kind: "m", M: map[string]rval{}}, {Kind: "c", C: []rval{vals[4]}}}
	if full {
		leafs = nil
		for _, a := range vals {
			leafs = append(leafs, resd{Kind: "m", M: map[string]rval{"k": a}})
		}
		leafs = append(leafs, resd{Kind: "nf"})
	}
	toSim := func(r resd) SimRes {
		s := SimRes{Kind: r.Kind}
		if r.Kind == "m" {
			s.M = map[string]Val{}
			for k, v := range r.M {
				s.M[k] = Val{T: v.T, V: v.V}
			}
		}
		for _, v := range r.C {
			s.C = append(s.C, Val{T: v.T, V: v.V})
		}
		return s
	}
	fix := func(l []resd) {
		for i := range l {
			if l[i].M == nil {
				l[i].M = map[string]rval{}
			}
			if l[i].C == nil {
				l[i].C = []rval{}
			}
		}
	}
	fix(roots)
	fix(mids)
	fix(leafs)
	type cse struct {
		r [3]resd
	}
	var cases []cse
	for _, a := range roots {
		for _, b := range mids {
			for _, c := range leafs {
				cases = append(cases, cse{[3]resd{a, b, c}})
			}
		}
	}
	// model keys that need (or must not get) escaping, at the root and one level down
	trickyKeys := []string{"\x01", "\a", "\v", "\x1f", "\x7f", "\b\f\n\r\t", "\\", "\"", "/", "<&>", "\u00e9", "\u2028", "\U0010ffff", "\U0001f600", "", " ", "\u0080"}
	for _, k := range trickyKeys {
		root := resd{Kind: "m", M: map[string]rval{k: vals[0], "n": vals[4]}, C: []rval{}}
		mid := resd{Kind: "m", M: map[string]rval{k: vals[0], k + "2": vals[5]}, C: []rval{}}
		cases = append(cases, cse{[3]resd{root, mid, leafs[0]}})
	}
	enc.Encode(Rec{"count": len(cases) * 2, "roots": len(roots), "mids": len(mids), "leafs": len(leafs)})
	const batch = 150
	for _, encoding := range []string{"json", "jsonflat"} {
		for start := 0; start < len(cases); start += batch {
			end := start + batch
			if end > len(cases) {
				end = len(cases)
			}
			synctest.Test(t, func(t *testing.T) {
				for i := start; i < end; i++ {
					c := cases[i]
					cfg := ScenarioCfg{Family: "render", Free: true, APIEncoding: encoding,
						Resources: map[string]SimRes{"r0": toSim(c.r[0]), "r1": toSim(c.r[1]), "r2": toSim(c.r[2])}}
					w := NewWorld(t, cfg)
					mark := len(w.Log())
					w.Do(Step{Op: "http", C: "h1", Method: "GET", Path: "/api/r0"})
					w.Drain()
					row := Rec{"enc": encoding, "res": map[string]any{"r0": c.r[0], "r1": c.r[1], "r2": c.r[2]}, "status": 0, "valid": false, "tree": map[string]any{"p": ""}}
					for _, r := range w.Log()[mark:] {
						if r["e"] == "httpres" {
							body := []byte(r["body"].(string))
							row["status"], row["valid"] = r["status"], json.Valid(body)
							if json.Valid(body) {
								row["tree"] = jtree(body)
							}
						}
					}
					enc.Encode(row)
					w.Teardown()
				}
			})
		}
	}
	_ = sort.Strings
}
