package gw

import (
	"bufio"
	"encoding/json"
	"os"
	"testing"
	"testing/synctest"
)

// Schedule is one scenario: a configuration and a list of steps.
type Schedule struct {
	ID    string      `json:"id"`
	Cfg   ScenarioCfg `json:"cfg"`
	Steps []Step      `json:"steps"`
}

// TestRun replays every schedule of $VERIF_SCHED on the real gateway and
// writes the concatenated traces to $VERIF_OUT. $VERIF_PROGRESS receives the
// id of the schedule being run, so that a crash can be attributed.
func TestRun(t *testing.T) {
	in, out := os.Getenv("VERIF_SCHED"), os.Getenv("VERIF_OUT")
	if in == "" || out == "" {
		t.Skip("VERIF_SCHED / VERIF_OUT not set")
	}
	f, err := os.Open(in)
	if err != nil {
		t.Fatal(err)
	}
	defer f.Close()
	of, err := os.Create(out)
	if err != nil {
		t.Fatal(err)
	}
	defer of.Close()
	bw := bufio.NewWriterSize(of, 1<<20)
	defer bw.Flush()
	enc := json.NewEncoder(bw)
	sc := bufio.NewScanner(f)
	sc.Buffer(make([]byte, 1<<20), 1<<26)
	prog := os.Getenv("VERIF_PROGRESS")
	for sc.Scan() {
		var s Schedule
		if err := json.Unmarshal(sc.Bytes(), &s); err != nil {
			t.Fatalf("bad schedule: %v", err)
		}
		if prog != "" {
			bw.Flush()
			os.WriteFile(prog, []byte(s.ID), 0o644)
		}
		var log []Rec
		var executed, skipped int
		synctest.Test(t, func(t *testing.T) {
			w := NewWorld(t, s.Cfg)
			w.RunSchedule(s.Steps)
			w.Teardown()
			log = w.Log()
			executed, skipped = w.executed, w.skipped
		})
		enc.Encode(Rec{"e": "reset", "trace": s.ID, "family": s.Cfg.Family, "free": s.Cfg.Free})
		for _, r := range log {
			enc.Encode(r)
		}
		enc.Encode(Rec{"e": "end", "trace": s.ID, "executed": executed, "skipped": skipped})
	}
	if prog != "" {
		bw.Flush()
		os.WriteFile(prog, []byte("done"), 0o644)
	}
}
