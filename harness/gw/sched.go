package gw

import (
	"encoding/json"
	"errors"
	"fmt"
	"os"
	"sort"
	"strings"
	"testing/synctest"
	"time"
)

// Step is one schedule step: an abstract command that the scheduler performs
// on the real system if it is enabled there, and skips otherwise.
type Step struct {
	Op     string            `json:"op"`
	C      string            `json:"c,omitempty"`
	Ver    string            `json:"ver,omitempty"`
	M      string            `json:"m,omitempty"`
	RID    string            `json:"rid,omitempty"`
	Action string            `json:"action,omitempty"`
	Count  *int              `json:"count,omitempty"`
	N      string            `json:"n,omitempty"`
	T      string            `json:"t,omitempty"`
	Pick   int               `json:"pick,omitempty"`
	Out    string            `json:"out,omitempty"`
	Arg    string            `json:"arg,omitempty"`
	Ev     string            `json:"ev,omitempty"`
	A      int               `json:"a,omitempty"`
	K      string            `json:"k,omitempty"`
	Val    *Val              `json:"val,omitempty"`
	Res    []string          `json:"res,omitempty"`
	Acc    []string          `json:"acc,omitempty"`
	Tok    string            `json:"tok,omitempty"`
	TID    string            `json:"tid,omitempty"`
	TIDs   []string          `json:"tids,omitempty"`
	Ms     int               `json:"ms,omitempty"`
	Method string            `json:"method,omitempty"`
	Path   string            `json:"path,omitempty"`
	Body   string            `json:"body,omitempty"`
	Hdr    map[string]string `json:"hdr,omitempty"`
	Force  bool              `json:"force,omitempty"`
	Raw    string            `json:"raw,omitempty"`
	ID     *int              `json:"id,omitempty"`
	Solo   bool              `json:"solo,omitempty"`
	Settle bool              `json:"settle,omitempty"`
	Meta   string            `json:"meta,omitempty"`
	Shape  string            `json:"shape,omitempty"`
	Noop   bool              `json:"noop,omitempty"` // change event: repeats the current value of key k
	More   map[string]Val    `json:"more,omitempty"` // change event: further keys of the same event
	Drain  []Step            `json:"drain,omitempty"` // stop / mqlost: delivered by the messaging client while it is being closed
}

// Do performs one step, waits for the system to block, and logs what it
// caused.
func (w *World) Do(st Step) bool {
	w.stepNo++
	sj, _ := json.Marshal(st)
	rec := Rec{"e": "step", "i": w.stepNo, "op": st.Op, "s": string(sj), "skipped": false}
	w.add(rec)
	if debugTrace {
		fmt.Fprintln(os.Stderr, "STEP", w.stepNo, string(sj))
	}
	ok := w.do(st)
	synctest.Wait()
	w.drainFrames()
	if st.Settle {
		// run the gateway's internal actors until they are idle; service
		// requests stay unanswered
		for i := 0; i < 2000; i++ {
			gs := w.pendingGates()
			if len(gs) == 0 {
				break
			}
			w.release(gs[0])
			synctest.Wait()
			w.drainFrames()
		}
	}

	if !ok {
		w.mu.Lock()
		rec["skipped"] = true
		w.mu.Unlock()
		w.skipped++
	} else {
		w.executed++
	}
	return ok
}

func (w *World) do(st Step) bool {
	switch st.Op {
	case "open":
		ver := st.Ver
		if ver == "" {
			ver = "latest"
		}
		var hdr map[string][]string
		if len(st.Hdr) > 0 {
			hdr = map[string][]string{}
			for k, v := range st.Hdr {
				hdr[k] = []string{v}
			}
		}
		return w.openClient(st.C, ver, hdr)
	case "send":
		return w.send(st)
	case "raw":
		return w.sendFrame(st.C, []byte(st.Raw))
	case "close":
		if st.C == "@req" {
			// the connection on whose behalf the oldest outstanding request was made
			for _, r := range w.mq.pendingReqs() {
				if r.csym != "" {
					return w.closeClient(r.csym)
				}
			}
			return false
		}
		if st.C == "@other" {
			// a live connection on whose behalf no request is outstanding (the first in symbol order)
			busy := map[string]bool{}
			for _, r := range w.mq.pendingReqs() {
				busy[r.csym] = true
			}
			syms := make([]string, 0, len(w.clients))
			for s := range w.clients {
				syms = append(syms, s)
			}
			sort.Strings(syms)
			for _, s := range syms {
				if c := w.clients[s]; !busy[s] && !c.closed && !c.eof {
					return w.closeClient(s)
				}
			}
			return false
		}
		return w.closeClient(st.C)
	case "stall":
		return w.stall(st.C)
	case "conn":
		if g := w.findGate("conn", st.C); g != nil {
			w.release(g)
			return true
		}
		return false
	case "cache", "evict":
		if g := w.findGate(st.Op, st.N); g != nil {
			w.release(g)
			return true
		}
		return false
	case "int":
		gs := w.pendingGates()
		if st.T != "" {
			f := gs[:0:0]
			for _, g := range gs {
				if g.kind == st.T {
					f = append(f, g)
				}
			}
			gs = f
		}
		if len(gs) == 0 {
			return false
		}
		w.release(gs[st.Pick%len(gs)])
		return true
	case "reply":
		rs := w.mq.pendingReqs()
		f := rs[:0:0]
		for _, r := range rs {
			if (st.T == "" || r.typ == st.T) && (st.N == "" || r.sname == st.N) && (st.C == "" || r.csym == st.C) {
				f = append(f, r)
			}
		}
		if len(f) == 0 {
			return false
		}
		// The gateway issues requests while ranging over Go maps (queries of
		// a query event, resources of a system reset, subscriptions of a
		// token change): arrival order is random. Pick in a canonical order
		// so that a schedule means the same in every execution.
		sort.SliceStable(f, func(i, j int) bool {
			a, b := f[i], f[j]
			if a.typ != b.typ {
				return a.typ < b.typ
			}
			if a.sname != b.sname {
				return a.sname < b.sname
			}
			if a.query != b.query {
				return a.query < b.query
			}
			if a.csym != b.csym {
				return a.csym < b.csym
			}
			return a.k < b.k
		})
		out := st.Out
		if out == "" {
			out = "ok"
		}
		if strings.HasPrefix(out, "bad:") {
			return w.sim.replyBad(f[st.Pick%len(f)], out[4:])
		}
		return w.sim.reply(f[st.Pick%len(f)], out, st.Arg, st.Meta)
	case "event":
		v := noVal
		if st.Val != nil {
			v = *st.Val
		}
		more := st.More
		if st.Noop {
			more = map[string]Val{"\x00noop": {T: "p", V: "1"}}
		}
		return w.sim.event(st.N, st.Ev, st.A, st.K, v, st.Force, more)
	case "inject":
		return w.sim.inject(st.N, st.Shape)
	case "mutate":
		v := noVal
		if st.Val != nil {
			v = *st.Val
		}
		return w.sim.mutate(st.N, st.A, st.K, v)
	case "gone":
		// the service deletes the resource silently: later get / query requests are answered not found
		if w.sim.lookup(st.N) == nil {
			return false
		}
		w.sim.res[st.N] = &SimRes{Kind: "nf"}
		w.sim.mut[st.N] = true
		w.add(Rec{"e": "mutate", "key": st.N})
		return true
	case "reset":
		w.mu.Lock()
		w.resetPats = append(w.resetPats, st.Res...)
		w.mu.Unlock()
		return w.systemEvent("reset", map[string]any{"resources": st.Res, "access": st.Acc},
			Rec{"res": strs(st.Res), "acc": strs(st.Acc), "matchres": strs(w.sim.matching(st.Res)), "matchacc": strs(w.sim.matching(st.Acc))})
	case "tokenreset":
		return w.systemEvent("tokenReset", map[string]any{"tids": st.TIDs, "subject": "auth.tokenreset"},
			Rec{"tids": strs(st.TIDs), "subject": "auth.tokenreset"})
	case "token":
		return w.tokenEvent(st)
	case "time":
		time.Sleep(time.Duration(st.Ms) * time.Millisecond)
		return true
	case "http":
		return w.httpDo(st.C, st.Method, st.Path, st.Body, st.Hdr)
	case "stop":
		if !w.running {
			return false
		}
		w.add(Rec{"e": "stop", "cause": ""})
		w.mq.setDrain(st.Drain)
		go w.svc.Stop(nil)
		w.settleStop()
		return true
	case "mqlost":
		if !w.running {
			return false
		}
		w.add(Rec{"e": "stop", "cause": "mq connection lost"})
		w.mq.setDrain(st.Drain)
		w.mq.lose(errors.New("mq connection lost"))
		w.settleStop()
		return true
	case "start":
		if w.running {
			return false
		}
		if err := w.svc.Start(); err != nil {
			w.add(Rec{"e": "startfail", "err": err.Error()})
			return true
		}
		w.running = true
		w.add(Rec{"e": "started"})
		w.watchStop()
		return true
	case "drain":
		w.Drain()
		return true
	case "quiescent":
		w.Quiescent()
		return true
	case "final":
		w.Final()
		return true
	}
	return false
}

func strs(s []string) []any {
	o := make([]any, len(s))
	for i, x := range s {
		o[i] = x
	}
	return o
}

func (w *World) mevtRec(ns, ev string) Rec {
	return Rec{"e": "mevt", "ns": ns, "n": "", "ev": ev, "seq": 0, "idx": -1, "val": noVal,
		"vals": map[string]any{}, "c": "", "tok": "", "tid": "", "res": []any{}, "acc": []any{}, "tids": []any{}, "subject": "", "bad": false, "matchres": []any{}, "matchacc": []any{}}
}

func (w *World) systemEvent(ev string, payload any, extra Rec) bool {
	if !w.mq.hasSub("system") {
		return false
	}
	rec := w.mevtRec("system", ev)
	for k, v := range extra {
		rec[k] = v
	}
	w.add(rec)
	return w.mq.deliver("system", ev, mustJSON(payload))
}

func (w *World) tokenEvent(st Step) bool {
	w.mu.Lock()
	cid, ok := w.symCID[st.C]
	w.mu.Unlock()
	if !ok || !w.mq.hasSub("conn."+cid) {
		return false
	}
	tok := st.Tok
	if tok == "" {
		tok = "null"
	}
	p := map[string]any{"token": json.RawMessage(tok)}
	if st.TID != "" {
		p["tid"] = st.TID
	}
	rec := w.mevtRec("conn", "token")
	rec["c"], rec["tid"] = st.C, st.TID
	if tok == "null" {
		rec["tok"] = "nil"
	} else {
		rec["tok"] = tok
	}
	w.add(rec)
	return w.mq.deliver("conn."+cid, "token", mustJSON(p))
}

func (w *World) send(st Step) bool {
	c := w.clients[st.C]
	if c == nil || c.closed || c.eof {
		return false
	}
	// a solo get is only sent when nothing else is outstanding on the
	// connection, and nothing else is sent until it is answered
	if c.soloOut || (st.Solo && len(c.out) > 0) {
		return false
	}
	id := c.nextID
	if st.ID != nil {
		id = *st.ID
	} else {
		c.nextID++
	}
	method := st.M + "." + st.RID
	if st.M == "call" || st.M == "auth" {
		method += "." + st.Action
	}
	f := map[string]any{"id": id, "method": method}
	// a request object may carry members the protocol does not define (JSON-RPC clients, tracing): they change nothing
	switch id % 3 {
	case 1:
		f["jsonrpc"] = "2.0"
	case 2:
		f["trace"] = map[string]any{"span": []any{1, "x"}}
	}
	count := 1
	if st.Count != nil {
		count = *st.Count
		f["params"] = map[string]any{"count": count}
	}
	c.out[id] = true
	if st.Solo {
		c.soloOut = true
		c.soloID = id
	}
	n, q := w.splitRID(st.C, st.RID)
	w.add(Rec{"e": "creq", "c": st.C, "id": id, "m": st.M, "rid": st.RID, "n": n, "q": q, "key": key(n, q), "action": st.Action, "count": count})
	return w.sendFrame(st.C, mustJSON(f))
}

// settleStop lets a Stop in progress run to completion: the gateway's
// workers are released as they come, and fake time advances so that the
// bounded shutdown timeouts can fire. It gives up after a fake minute.
func (w *World) settleStop() {
	for i := 0; i < 400; i++ {
		synctest.Wait()
		w.drainFrames()
		if i == 0 {
			// Stop / connection loss is in progress (or already done): a
			// new client tries to connect. C20: it must be refused.
			w.mu.Lock()
			running := w.running
			w.mu.Unlock()
			if running {
				w.probes++
				w.openRefused(fmt.Sprintf("probe%d", w.probes))
				synctest.Wait()
				w.drainFrames()
			}
		}
		if gs := w.pendingGates(); len(gs) > 0 {
			w.release(gs[0])
			continue
		}
		w.mu.Lock()
		running := w.running
		w.mu.Unlock()
		if !running {
			return
		}
		time.Sleep(500 * time.Millisecond)
	}
	w.add(Rec{"e": "stophang"})
}

// Drain drives the system to quiescence: it releases pending gates and
// answers pending requests from the truth until nothing is pending.
func (w *World) Drain() bool {
	for i := 0; i < 5000; i++ {
		if gs := w.pendingGates(); len(gs) > 0 {
			w.release(gs[0])
			synctest.Wait()
			w.drainFrames()
			continue
		}
		if rs := w.mq.pendingReqs(); len(rs) > 0 {
			w.sim.reply(rs[0], "ok", "")
			synctest.Wait()
			w.drainFrames()
			continue
		}
		w.drainFrames()
		return true
	}
	w.drainFrames()
	w.add(Rec{"e": "stall", "gates": len(w.pendingGates()), "reqs": len(w.mq.pendingReqs())})
	return false
}

// Quiescent drains and records the facts the observer needs at quiescence.
func (w *World) Quiescent() {
	w.resumeStalled()
	synctest.Wait()
	w.drainFrames()
	ok := w.Drain()
	w.add(w.stateRec("quiescent", ok))
}

// Final closes every client, lets the eviction delay elapse and records the
// end state.
func (w *World) Final() {
	syms := make([]string, 0, len(w.clients))
	for s := range w.clients {
		syms = append(syms, s)
	}
	sort.Strings(syms)
	for _, s := range syms {
		w.closeClient(s)
	}
	synctest.Wait()
	ok := w.Drain()
	for i := 0; i < 3; i++ {
		time.Sleep(6 * time.Second)
		synctest.Wait()
		ok = w.Drain() && ok
	}
	w.add(w.stateRec("final", ok))
}

func (w *World) stateRec(kind string, drained bool) Rec {
	snap := w.snapshot()
	gr, gs := w.gauges()
	conns := []any{}
	rn := map[string]any{}
	subs := map[string]any{}
	toks := map[string]any{}
	w.mu.Lock()
	for _, c := range snap.Conns {
		sym := w.symOf(c.CID)
		conns = append(conns, sym)
		m := map[string]any{}
		crn := map[string]any{}
		rn[sym] = crn
		for rid, s := range c.Subs {
			crn[rid] = w.ridInfo(sym, rid)
			m[rid] = map[string]any{"direct": s.Direct, "indirect": s.Indirect, "state": s.State,
				"qf": s.QueueFlag, "eq": s.EventQueue, "acb": s.AccessCallbacks, "rcb": s.ReadyCallbacks}
		}
		subs[sym] = m
		t := c.Token
		if t == "" {
			t = "nil"
		}
		toks[sym] = t
	}
	cache := map[string]any{}
	for _, e := range snap.Cache {
		n := 0
		for _, r := range e.RS {
			n += r.Subs
		}
		cache[w.symText(e.Name)] = map[string]any{"count": e.Count, "subs": n, "mqSub": e.MQSub, "locked": e.Locked, "qlen": e.QLen}
	}
	w.mu.Unlock()
	mqs := []any{}
	for _, s := range w.mq.subNames() {
		mqs = append(mqs, s)
	}
	return Rec{"e": kind, "drained": drained, "conns": conns, "subs": subs, "tok": toks, "cache": cache,
		"rn": rn, "mqsubs": mqs, "gres": gr, "gsubs": gs, "evict": snap.EvictLen, "running": snap.Running,
		"pend": len(w.mq.pendingReqs()), "gates": len(w.pendingGates())}
}

// RunSchedule runs one schedule to the end and returns the trace.
func (w *World) RunSchedule(steps []Step) {
	for _, st := range steps {
		w.Do(st)
	}
}

func (s Step) String() string {
	b, _ := json.Marshal(s)
	return strings.TrimSpace(string(b))
}

var debugTrace = os.Getenv("VERIF_DEBUG") != ""
