package gw

import (
	"encoding/json"
	"fmt"
	"sort"
	"strings"

	"github.com/resgateio/resgate/server/mq"
)

// Val is an abstract RES value: t is p (primitive), r (reference), s (soft
// reference), d (data value) or x (delete action); v is the raw JSON of a
// primitive / data value, or the rid of a reference.
type Val struct {
	T string `json:"t"`
	V string `json:"v"`
}

// SimRes is the service-side content of one resource.
type SimRes struct {
	Kind string         `json:"k"` // m, c, nf (not found), err
	M    map[string]Val `json:"m,omitempty"`
	C    []Val          `json:"c,omitempty"`
}

func (r *SimRes) clone() *SimRes {
	if r == nil {
		return nil
	}
	n := &SimRes{Kind: r.Kind}
	if r.M != nil {
		n.M = make(map[string]Val, len(r.M))
		for k, v := range r.M {
			n.M[k] = v
		}
	}
	n.C = append([]Val{}, r.C...)
	return n
}

// Sim is the service simulator. It owns the service-side truth and produces
// protocol-valid responses and events from it at hand-over time.
type Sim struct {
	w     *World
	res   map[string]*SimRes // key: symbolic name, or name?normalisedQuery
	tmpl  map[string]*SimRes // templates with {cid}
	qnorm map[string]string  // "name?raw" -> normalised query
	sent  map[string]*SimRes // last content handed to the gateway per key
	seq   map[string]int
	nq    int
	mut   map[string]bool // keys whose content was changed without an event
}

func newSim(w *World, cfg ScenarioCfg) *Sim {
	s := &Sim{w: w, res: map[string]*SimRes{}, tmpl: map[string]*SimRes{}, qnorm: map[string]string{},
		sent: map[string]*SimRes{}, seq: map[string]int{}, mut: map[string]bool{}}
	for k, r := range cfg.Resources {
		r := r
		if strings.Contains(k, "{cid}") {
			s.tmpl[k] = r.clone()
		} else {
			s.res[k] = r.clone()
		}
	}
	for k, v := range cfg.QNorm {
		s.qnorm[k] = v
	}
	return s
}

func (s *Sim) normQ(name, q string) string {
	if q == "" {
		return ""
	}
	if n, ok := s.qnorm[name+"?"+q]; ok {
		return n
	}
	return q
}

func key(name, nq string) string {
	if nq == "" {
		return name
	}
	return name + "?" + nq
}

// lookup finds the content of a symbolic key, instantiating {cid} templates.
func (s *Sim) lookup(k string) *SimRes {
	if r, ok := s.res[k]; ok {
		return r
	}
	s.w.mu.Lock()
	syms := make([]string, 0, len(s.w.symCID))
	for sym := range s.w.symCID {
		syms = append(syms, sym)
	}
	s.w.mu.Unlock()
	for _, sym := range syms {
		if strings.Contains(k, sym) {
			t := strings.ReplaceAll(k, sym, "{cid}")
			if r, ok := s.tmpl[t]; ok {
				s.res[k] = r.clone()
				return s.res[k]
			}
		}
	}
	return nil
}

func wire(v Val) json.RawMessage {
	switch v.T {
	case "p":
		return json.RawMessage(v.V)
	case "r":
		return mustJSON(map[string]any{"rid": v.V})
	case "s":
		return mustJSON(map[string]any{"rid": v.V, "soft": true})
	case "d":
		return json.RawMessage(`{"data":` + v.V + `}`)
	case "x":
		return json.RawMessage(`{"action":"delete"}`)
	}
	return json.RawMessage(`null`)
}

func wireModel(m map[string]Val) map[string]json.RawMessage {
	o := make(map[string]json.RawMessage, len(m))
	for k, v := range m {
		o[k] = wire(v)
	}
	return o
}

func wireColl(c []Val) []json.RawMessage {
	o := make([]json.RawMessage, len(c))
	for i, v := range c {
		o[i] = wire(v)
	}
	return o
}

func normModel(m map[string]Val) map[string]any {
	o := make(map[string]any, len(m))
	for k, v := range m {
		o[k] = v
	}
	return o
}

func normColl(c []Val) []any {
	o := make([]any, len(c))
	for i, v := range c {
		o[i] = v
	}
	return o
}

var noVal = Val{T: "", V: ""}

func errPayload(code string) []byte {
	return mustJSON(map[string]any{"error": map[string]any{"code": code, "message": code}})
}

// reply answers a pending request with the given outcome class and hands the
// answer to the gateway. It returns false if the request is gone.
func (s *Sim) reply(r *mqReq, out, arg string, metas ...string) bool {
	if !s.w.mq.take(r) {
		return false
	}
	rec := Rec{"e": "mres", "k": r.k, "t": r.typ, "n": r.sname, "q": r.query, "key": key(r.sname, r.query), "nkey": key(r.sname, r.query), "c": r.csym, "out": out,
		"calllist": []any{}, "meth": r.meth, "kind": "", "val": map[string]any{}, "list": []any{}, "nq": "", "code": "", "get": false, "call": "",
		"rrid": "", "events": []any{}}
	var payload []byte
	var err error
	if r.tooLong {
		out = "toolong"
	}
	switch out {
	case "timeout":
		err = mq.ErrRequestTimeout
		rec["kind"], rec["code"] = "error", "system.timeout"
	case "noresp":
		err = mq.ErrNoResponders
		rec["kind"], rec["code"] = "error", "system.notFound"
	case "toolong":
		err = mq.ErrSubjectTooLong
		rec["kind"], rec["code"] = "error", "system.subjectTooLong"
	case "notFound":
		payload = errPayload("system.notFound")
		rec["kind"], rec["code"] = "error", "system.notFound"
	case "err":
		payload = errPayload("system.internalError")
		rec["kind"], rec["code"] = "error", "system.internalError"
	case "custom":
		payload = errPayload("test.custom")
		rec["kind"], rec["code"] = "error", "test.custom"
	default:
		if strings.HasPrefix(out, "code:") {
			payload = errPayload(out[5:])
			rec["kind"], rec["code"] = "error", out[5:]
			break
		}
		switch r.typ {
		case "get":
			payload = s.replyGet(r, rec)
		case "access":
			payload = s.replyAccess(r, rec, out, arg)
		case "call", "auth":
			payload = s.replyCall(r, rec, out, arg)
		case "query":
			payload = s.replyQuery(r, rec, out)
		default:
			payload = []byte(`{"result":null}`)
			rec["kind"] = "result"
		}
	}
	if len(metas) > 0 && metas[0] != "" && err == nil {
		var m map[string]json.RawMessage
		if json.Unmarshal(payload, &m) == nil {
			m["meta"] = json.RawMessage(metas[0])
			payload = mustJSON(m)
		}
	}
	s.w.add(rec)
	r.cb(r.subj, payload, err)
	return true
}

func (s *Sim) replyGet(r *mqReq, rec Rec) []byte {
	nq := s.normQ(r.sname, r.query)
	k := key(r.sname, nq)
	c := s.lookup(k)
	rec["nq"], rec["nkey"] = nq, k
	if c == nil || c.Kind == "nf" {
		rec["kind"], rec["code"] = "error", "system.notFound"
		return errPayload("system.notFound")
	}
	if c.Kind == "err" {
		rec["kind"], rec["code"] = "error", "system.internalError"
		return errPayload("system.internalError")
	}
	s.sent[k] = c.clone()
	res := map[string]any{}
	if c.Kind == "m" {
		res["model"] = wireModel(c.M)
		rec["kind"], rec["val"] = "m", normModel(c.M)
	} else {
		res["collection"] = wireColl(c.C)
		rec["kind"], rec["list"] = "c", normColl(c.C)
	}
	if r.query != "" {
		res["query"] = nq
	}
	return mustJSON(map[string]any{"result": res})
}

func (s *Sim) replyAccess(r *mqReq, rec Rec, out, arg string) []byte {
	rec["kind"] = "access"
	if strings.HasPrefix(out, "rawacc:") {
		return []byte(out[7:])
	}
	switch out {
	case "deny":
		return []byte(`{"result":{"get":false}}`)
	case "nocall":
		rec["get"] = true
		return []byte(`{"result":{"get":true}}`)
	case "list":
		if arg == "" {
			arg = "a,b"
		}
		rec["get"], rec["call"] = true, arg
		cl := []any{}
		for _, x := range strings.Split(arg, ",") {
			cl = append(cl, x)
		}
		rec["calllist"] = cl
		return mustJSON(map[string]any{"result": map[string]any{"get": true, "call": arg}})
	case "callonly":
		rec["call"] = "*"
		return []byte(`{"result":{"get":false,"call":"*"}}`)
	case "denied":
		rec["kind"], rec["code"] = "error", "system.accessDenied"
		return errPayload("system.accessDenied")
	case "missing":
		rec["kind"], rec["code"] = "error", "system.internalError"
		return []byte(`{}`)
	}
	rec["get"], rec["call"] = true, "*"
	return []byte(`{"result":{"get":true,"call":"*"}}`)
}

func (s *Sim) replyCall(r *mqReq, rec Rec, out, arg string) []byte {
	if out == "raw" {
		rec["kind"] = "result"
		return []byte(`{"result":` + arg + `}`)
	}
	if out == "res" && arg != "" {
		rec["kind"], rec["rrid"] = "resource", arg
		return mustJSON(map[string]any{"resource": map[string]any{"rid": arg}})
	}
	rec["kind"] = "result"
	return []byte(`{"result":{"ok":true}}`)
}

func (s *Sim) replyQuery(r *mqReq, rec Rec, out string) []byte {
	k := key(r.sname, r.query)
	c := s.lookup(k)
	if c == nil || c.Kind == "nf" {
		rec["kind"], rec["code"] = "error", "system.notFound"
		return errPayload("system.notFound")
	}
	if c.Kind == "err" {
		rec["kind"], rec["code"] = "error", "system.internalError"
		return errPayload("system.internalError")
	}
	old := s.sent[k]
	if out == "empty" {
		rec["kind"] = "events"
		return []byte(`{"result":{"events":[]}}`)
	}
	if out == "events" && old != nil && old.Kind == c.Kind {
		evs, nevs := diffEvents(old, c)
		s.sent[k] = c.clone()
		rec["kind"], rec["events"] = "events", nevs
		return mustJSON(map[string]any{"result": map[string]any{"events": evs}})
	}
	s.sent[k] = c.clone()
	if c.Kind == "m" {
		rec["kind"], rec["val"] = "m", normModel(c.M)
		return mustJSON(map[string]any{"result": map[string]any{"model": wireModel(c.M)}})
	}
	rec["kind"], rec["list"] = "c", normColl(c.C)
	return mustJSON(map[string]any{"result": map[string]any{"collection": wireColl(c.C)}})
}

// diffEvents derives a protocol-valid event list turning old into new.
func diffEvents(old, new *SimRes) ([]any, []any) {
	evs, nevs := []any{}, []any{}
	if new.Kind == "m" {
		ch := map[string]Val{}
		for k, v := range new.M {
			if ov, ok := old.M[k]; !ok || ov != v {
				ch[k] = v
			}
		}
		for k := range old.M {
			if _, ok := new.M[k]; !ok {
				ch[k] = Val{T: "x"}
			}
		}
		if len(ch) > 0 {
			evs = append(evs, map[string]any{"event": "change", "data": map[string]any{"values": wireModel(ch)}})
			nevs = append(nevs, evRec("change", -1, noVal, ch))
		}
		return evs, nevs
	}
	// common prefix stays; the rest is removed from the end and re-added
	p := 0
	for p < len(old.C) && p < len(new.C) && old.C[p] == new.C[p] {
		p++
	}
	for i := len(old.C) - 1; i >= p; i-- {
		evs = append(evs, map[string]any{"event": "remove", "data": map[string]any{"idx": i}})
		nevs = append(nevs, evRec("remove", i, noVal, nil))
	}
	for i := p; i < len(new.C); i++ {
		evs = append(evs, map[string]any{"event": "add", "data": map[string]any{"idx": i, "value": wire(new.C[i])}})
		nevs = append(nevs, evRec("add", i, new.C[i], nil))
	}
	return evs, nevs
}

func evRec(ev string, idx int, val Val, vals map[string]Val) map[string]any {
	if vals == nil {
		vals = map[string]Val{}
	}
	return map[string]any{"ev": ev, "idx": idx, "val": val, "vals": normModel(vals)}
}

// event emits a resource event: it mutates the truth and, if the gateway is
// subscribed, hands the event over. a and val parameterise the event.
func (s *Sim) event(sname, ev string, a int, kname string, val Val, force bool, more map[string]Val) bool {
	w := s.w
	w.mu.Lock()
	real := sname
	for sym, cid := range w.symCID {
		real = strings.ReplaceAll(real, sym, cid)
	}
	w.mu.Unlock()
	ns := "event." + real
	c := s.lookup(sname)
	rec := Rec{"e": "mevt", "ns": "event", "n": sname, "ev": ev, "seq": 0, "idx": -1, "val": noVal,
		"vals": map[string]any{}, "c": "", "tok": "", "tid": "", "res": []any{}, "acc": []any{}, "tids": []any{}, "subject": "", "bad": false, "matchres": []any{}, "matchacc": []any{}}
	var payload []byte
	switch ev {
	case "change":
		if c == nil || c.Kind != "m" {
			if !force {
				return false
			}
			payload = mustJSON(map[string]any{"values": map[string]any{kname: wire(val)}})
			rec["vals"] = normModel(map[string]Val{kname: val})
			break
		}
		if noop, ok := more["\x00noop"]; ok && noop.T == "p" {
			// a change event that names only a value the model already has: nothing changes, nothing is numbered
			cur, has := c.M[kname]
			if !has {
				return false
			}
			rec["vals"] = normModel(map[string]Val{kname: cur})
			payload = mustJSON(map[string]any{"values": wireModel(map[string]Val{kname: cur})})
			break
		}
		if val.T == "x" {
			if _, ok := c.M[kname]; !ok {
				return false
			}
		} else if c.M[kname] == val {
			return false
		}
		s.seq[sname]++
		seq := s.seq[sname]
		ch := map[string]Val{kname: val, "_seq": {T: "p", V: fmt.Sprint(seq)}}
		for k, v := range more {
			// further keys of the same event; removing a key that is not there is left out
			if _, has := c.M[k]; k != kname && k != "_seq" && k != "\x00noop" && (v.T != "x" || has) {
				ch[k] = v
			}
		}
		for k, v := range ch {
			if v.T == "x" {
				delete(c.M, k)
			} else {
				c.M[k] = v
			}
		}
		rec["seq"], rec["vals"] = seq, normModel(ch)
		payload = mustJSON(map[string]any{"values": wireModel(ch)})
	case "add":
		if c == nil || c.Kind != "c" {
			if !force {
				return false
			}
			payload = mustJSON(map[string]any{"idx": a, "value": wire(val)})
			rec["idx"], rec["val"] = a, val
			break
		}
		idx := a
		if !force {
			idx = a % (len(c.C) + 1)
			nc := append([]Val{}, c.C[:idx]...)
			nc = append(nc, val)
			nc = append(nc, c.C[idx:]...)
			c.C = nc
		}
		rec["idx"], rec["val"] = idx, val
		payload = mustJSON(map[string]any{"idx": idx, "value": wire(val)})
	case "remove":
		if c == nil || c.Kind != "c" || (len(c.C) == 0 && !force) {
			if !force {
				return false
			}
			payload = mustJSON(map[string]any{"idx": a})
			rec["idx"] = a
			break
		}
		idx := a
		if !force {
			idx = a % len(c.C)
			c.C = append(append([]Val{}, c.C[:idx]...), c.C[idx+1:]...)
		}
		rec["idx"] = idx
		payload = mustJSON(map[string]any{"idx": idx})
	case "custom":
		s.seq[sname]++
		seq := s.seq[sname]
		rec["seq"] = seq
		payload = mustJSON(map[string]any{"seq": seq})
	case "delete":
		if c != nil {
			s.res[sname] = &SimRes{Kind: "nf"}
		}
		payload = nil
	case "reaccess":
		payload = nil
	case "query":
		s.nq++
		subj := fmt.Sprintf("_EVENT_QUERY_.%d", s.nq)
		w.mu.Lock()
		w.mq.qsubj[subj] = sname
		w.mu.Unlock()
		rec["subject"] = subj
		payload = mustJSON(map[string]any{"subject": subj})
	default:
		return false
	}
	if !w.mq.hasSub(ns) {
		// not subscribed: the mutation is silent for the gateway
		return true
	}
	w.add(rec)
	w.mq.deliver(ns, ev, payload)
	return true
}

// mutate changes the truth of a key silently.
func (s *Sim) mutate(k string, a int, kname string, val Val) bool {
	c := s.lookup(k)
	if c == nil {
		return false
	}
	switch c.Kind {
	case "m":
		if val.T == "x" {
			if _, ok := c.M[kname]; !ok {
				return false
			}
			delete(c.M, kname)
		} else {
			if c.M[kname] == val {
				return false
			}
			c.M[kname] = val
		}
	case "c":
		if val.T == "x" {
			if len(c.C) == 0 {
				return false
			}
			idx := a % len(c.C)
			c.C = append(append([]Val{}, c.C[:idx]...), c.C[idx+1:]...)
		} else {
			idx := a % (len(c.C) + 1)
			nc := append([]Val{}, c.C[:idx]...)
			nc = append(nc, val)
			c.C = append(nc, c.C[idx:]...)
		}
	default:
		return false
	}
	s.mut[k] = true
	s.w.add(Rec{"e": "mutate", "key": k})
	return true
}

// PatternMatch is the harness's reference implementation of resource
// pattern matching: * is exactly one token, > is one or more trailing
// tokens; an invalid pattern matches nothing.
func PatternMatch(pattern, name string) bool {
	if pattern == "" || name == "" {
		return false
	}
	pt := strings.Split(pattern, ".")
	for i, t := range pt {
		if t == "" {
			return false
		}
		if t == ">" && i != len(pt)-1 {
			return false
		}
		if t != "*" && t != ">" && strings.ContainsAny(t, "*>") {
			return false
		}
	}
	nt := strings.Split(name, ".")
	for i, t := range pt {
		if t == ">" {
			return len(nt) > i
		}
		if i >= len(nt) {
			return false
		}
		if t != "*" && t != nt[i] {
			return false
		}
	}
	return len(nt) == len(pt)
}

// matching returns the symbolic names known to the simulator that match
// any of the patterns.
func (s *Sim) matching(patterns []string) []string {
	seen := map[string]bool{}
	for k := range s.res {
		n := k
		if i := strings.IndexByte(k, '?'); i >= 0 {
			n = k[:i]
		}
		for _, p := range patterns {
			if PatternMatch(p, n) {
				seen[n] = true
			}
		}
	}
	out := make([]string, 0, len(seen))
	for n := range seen {
		out = append(out, n)
	}
	sort.Strings(out)
	return out
}

func sortStrings(s []string) { sort.Strings(s) }
