package gw

import (
	"bufio"
	"encoding/json"
	"net/http"
	"os"
	"path/filepath"
	"strconv"
	"strings"
	"testing"
	"testing/synctest"
)

var wsSym = map[string]string{"a": "a", "DOT": ".", "STAR": "*", "GT": ">", "QM": "?", "SP": " ", "CTL": "\x01",
	"CRLF": "\r\n", "DEL": "\x7f", "NA": "\xc3\xa9", "BAD": "\xff", "CID": "{cid}"}

var httpSym = map[string]string{"a": "a", "SLASH": "/", "DOT": ".", "STAR": "*", "P2E": "%2E", "P2A": "%2A", "P3E": "%3E",
	"P3F": "%3F", "P20": "%20", "P0A": "%0A", "P2F": "%2F", "PFF": "%FF", "CID": "%7Bcid%7D",
	"QRY": "?q=1"} // QRY: the URL's own query string (only ever the last symbol)

func envInt(name string, def int) int {
	if v, err := strconv.Atoi(os.Getenv(name)); err == nil {
		return v
	}
	return def
}

func allSeqs(alpha []string, max int, f func(s []string)) {
	var rec func(cur []string)
	rec = func(cur []string) {
		f(append([]string{}, cur...))
		if len(cur) == max {
			return
		}
		for _, a := range alpha {
			rec(append(cur, a))
		}
	}
	rec(nil)
}

// symsOf maps the bytes of a subject part back to table symbols.
func symsOf(s, cid string) []any {
	out := []any{}
	s = strings.ReplaceAll(s, cid, "\x00CID\x00")
	for len(s) > 0 {
		switch {
		case strings.HasPrefix(s, "\x00CID\x00"):
			out = append(out, "CID")
			s = s[5:]
		case s[0] == 'a':
			out = append(out, "a")
			s = s[1:]
		case s[0] == '.':
			out = append(out, "DOT")
			s = s[1:]
		case s[0] == '/':
			out = append(out, "SLASHCH")
			s = s[1:]
		case strings.HasPrefix(s, "{cid}"):
			out = append(out, "CIDRAW")
			s = s[5:]
		case strings.HasPrefix(s, "new"):
			out = append(out, "NEW")
			s = s[3:]
		default:
			out = append(out, "OTHER")
			s = s[1:]
		}
	}
	return out
}

// TestTableSubjects feeds every method string / HTTP path of a bounded
// symbol alphabet to the real gateway (service answers everything at once)
// and records the subjects it published or subscribed on and the response.
func TestTableSubjects(t *testing.T) {
	dir := os.Getenv("VERIF_OUT")
	if dir == "" {
		t.Skip("VERIF_OUT not set")
	}
	f, err := os.Create(filepath.Join(dir, "subjects.ndjson"))
	if err != nil {
		t.Fatal(err)
	}
	defer f.Close()
	bw := bufio.NewWriterSize(f, 1<<20)
	defer bw.Flush()
	enc := json.NewEncoder(bw)
	L := envInt("VERIF_SUBJ_LEN", 3)
	wsAlpha := []string{"a", "DOT", "STAR", "GT", "QM", "SP", "CTL", "CRLF", "DEL", "NA", "BAD", "CID"}
	httpAlpha := []string{"a", "SLASH", "DOT", "STAR", "P2E", "P2A", "P3E", "P3F", "P20", "P0A", "P2F", "PFF", "CID"}
	enc.Encode(Rec{"maxlen": L, "ws": wsAlpha, "http": httpAlpha})

	type input struct {
		kind, prefix string
		s            []string
	}
	var inputs []input
	for _, p := range []string{"get", "subscribe", "unsubscribe", "call", "auth", "new"} {
		allSeqs(wsAlpha, L, func(s []string) { inputs = append(inputs, input{"ws", p, s}) })
	}
	// PUT, DELETE and PATCH are mapped to the call methods a, aa and aaa (world.go, family "subjects")
	for _, m := range []string{"GET", "POST", "HEAD", "PUT", "DELETE", "PATCH"} {
		ml := L
		if m != "GET" && m != "POST" && ml > envInt("VERIF_SUBJ_MAPLEN", 3) {
			ml = envInt("VERIF_SUBJ_MAPLEN", 3)
		}
		allSeqs(httpAlpha, ml, func(s []string) { inputs = append(inputs, input{"http", m, s}) })
	}
	// beyond the length bound: the method segment of a call (POST /api/a/<method>, up to VERIF_SUBJ_ACTLEN symbols) and
	// the last segment of a GET / mapped PUT path, each with and without a query string on the URL
	al := envInt("VERIF_SUBJ_ACTLEN", 3)
	allSeqs(httpAlpha, al, func(s []string) {
		if len(s) == 0 {
			return
		}
		for _, m := range []string{"POST", "GET", "PUT"} {
			if m != "POST" && len(s) > 2 {
				continue
			}
			with := append(append([]string{"a", "SLASH"}, s...), "QRY")
			inputs = append(inputs, input{"http", m, with})
			if len(s)+2 > L || (m == "PUT" && len(s)+2 > envInt("VERIF_SUBJ_MAPLEN", 3)) {
				inputs = append(inputs, input{"http", m, with[:len(with)-1]})
			}
		}
	})
	for _, s := range [][]string{{"a", "QRY"}, {"a", "P3F", "SLASH", "P2A"}, {"a", "P3F", "a", "SLASH", "a", "P2E", "a"}, {"a", "SLASH", "a", "SLASH", "a", "P2E", "a", "QRY"},
		{"a", "SLASH", "a", "P2E", "P2E", "a", "QRY"}, {"a", "SLASH", "a", "P2E", "a", "P2E", "a"}, {"CID", "SLASH", "a", "P2E", "CID", "QRY"}} {
		for _, m := range []string{"POST", "GET", "PUT", "DELETE"} {
			inputs = append(inputs, input{"http", m, s})
		}
	}
	// rids supplied by services: a reference value in a model, and the resource of a call response
	allSeqs(wsAlpha, L, func(s []string) {
		if len(s) > 0 {
			inputs = append(inputs, input{"svcref", "subscribe", s}, input{"svcres", "call", s})
		}
	})
	const batch = 400
	for start := 0; start < len(inputs); start += batch {
		end := start + batch
		if end > len(inputs) {
			end = len(inputs)
		}
		synctest.Test(t, func(t *testing.T) {
			w := NewWorld(t, ScenarioCfg{Family: "subjects", Free: true})
			w.Do(Step{Op: "open", C: "c1"})
			cid := w.symCID["c1"]
			hn := 0
			for i := start; i < end; i++ {
				in := inputs[i]
				mark := len(w.Log())
				var hsym string
				if in.kind == "svcref" || in.kind == "svcres" {
					rid := ""
					for _, x := range in.s {
						rid += wsSym[x]
					}
					// "{cid}" in a service-supplied rid is not a tag of this connection's request; keep it literal
					name := "sv" + strconv.Itoa(i)
					w.sim.res[name] = &SimRes{Kind: "m", M: map[string]Val{"k": {T: "r", V: rid}}}
					frame := `{"id":` + strconv.Itoa(i) + `,"method":"subscribe.` + name + `"}`
					if in.kind == "svcres" {
						w.sim.res[name] = &SimRes{Kind: "m", M: map[string]Val{"k": {T: "p", V: "1"}}}
						frame = `{"id":` + strconv.Itoa(i) + `,"method":"call.` + name + `.act"}`
					}
					w.Do(Step{Op: "raw", C: "c1", Raw: frame})
					// answer by hand: the call gets the resource response
					for j := 0; j < 8; j++ {
						rs := w.mq.pendingReqs()
						if len(rs) == 0 {
							break
						}
						if rs[0].typ == "call" {
							w.sim.reply(rs[0], "res", rid)
						} else {
							w.sim.reply(rs[0], "ok", "")
						}
						synctest.Wait()
						w.drainFrames()
					}
				} else if in.kind == "ws" {
					m := in.prefix + "."
					for _, x := range in.s {
						m += wsSym[x]
					}
					var frame []byte
					if strings.Contains(m, "\xff") {
						q, _ := json.Marshal(strings.ReplaceAll(m, "\xff", "\x00BAD\x00"))
						frame = []byte(`{"id":` + strconv.Itoa(i) + `,"method":` + strings.ReplaceAll(string(q), `\u0000BAD\u0000`, "\xff") + `}`)
					} else {
						q, _ := json.Marshal(m)
						frame = []byte(`{"id":` + strconv.Itoa(i) + `,"method":` + string(q) + `}`)
					}
					w.Do(Step{Op: "raw", C: "c1", Raw: string(frame)})
				} else {
					p := "/api/"
					for _, x := range in.s {
						p += httpSym[x]
					}
					if _, err := http.NewRequest(in.prefix, "http://example.org"+p, nil); err != nil {
						continue // rejected by the HTTP server before the handler
					}
					hn++
					hsym = "h" + strconv.Itoa(i)
					w.Do(Step{Op: "http", C: hsym, Method: in.prefix, Path: p})
				}
				w.Drain()
				row := Rec{"kind": in.kind, "prefix": in.prefix, "s": in.s, "code": "", "status": 0, "answered": false}
				subs, msubs := []any{}, []any{}
				for _, r := range w.Log()[mark:] {
					switch r["e"] {
					case "mreq":
						real := r["subj"].(string)
						c := cid
						if hsym != "" {
							real = strings.ReplaceAll(real, hsym, "\x00H\x00")
						}
						real = strings.ReplaceAll(real, "c1", cid)
						typ, rest, _ := strings.Cut(real, ".")
						name, meth := rest, ""
						if typ == "call" || typ == "auth" {
							if j := strings.LastIndexByte(rest, '.'); j >= 0 {
								name, meth = rest[:j], rest[j+1:]
							}
						}
						if hsym != "" {
							c = "\x00H\x00"
						}
						if strings.HasPrefix(name, "sv") && in.kind != "ws" && in.kind != "http" {
							continue // the request's own resource
						}
						subs = append(subs, Rec{"t": typ, "n": symsOf(name, c), "m": symsOf(meth, c), "bad": r["bad"], "q": r["q"]})
					case "msub":
						if r["kind"] == "event" {
							n := r["n"].(string)
							c := cid
							if hsym != "" {
								n = strings.ReplaceAll(n, hsym, "\x00H\x00")
								c = "\x00H\x00"
							}
							n = strings.ReplaceAll(n, "c1", cid)
							if strings.HasPrefix(n, "sv") && in.kind != "ws" && in.kind != "http" {
								continue
							}
							msubs = append(msubs, Rec{"n": symsOf(n, c), "bad": r["bad"]})
						}
					case "cres":
						if r["id"] == i {
							row["code"], row["answered"] = r["code"], true
						}
					case "httpres":
						row["status"], row["answered"] = r["status"], true
					}
				}
				row["subs"], row["msubs"] = subs, msubs
				enc.Encode(row)
			}
			w.Teardown()
		})
	}
}
