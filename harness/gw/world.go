// Package gw drives the real resgate gateway in-process, under
// testing/synctest, against a harness-owned mq.Client and real WebSocket
// clients, and records an ndjson trace of everything that crosses the
// gateway's boundaries.
package gw

import (
	"bytes"
	"encoding/json"
	"fmt"
	"io"
	"net/http"
	"net/http/httptest"
	"os"
	"sort"
	"strings"
	"sync"
	"sync/atomic"
	"testing"
	"testing/synctest"
	"time"

	"github.com/gorilla/websocket"
	"github.com/posener/wstest"
	"github.com/resgateio/resgate/server"
	"github.com/resgateio/resgate/server/rescache"
)

// Rec is one trace record.
type Rec map[string]any

type gate struct {
	kind, id string
	ch       chan struct{}
}

// Client is one WebSocket client.
type Client struct {
	sym     string
	ws      *websocket.Conn
	cid     string
	inbox   [][]byte
	eof     bool
	eofSeen bool
	closed  bool
	nextID  int
	ver     string
	out     map[int]bool // outstanding request ids
	soloOut bool
	soloID  int
	stalled bool          // the client has stopped reading: the gateway's next write to it blocks
	resume  chan struct{} // closed when it reads again
}

type httpReq struct {
	sym  string
	rr   *httptest.ResponseRecorder
	done bool
	seen bool
	meth string
}

// World is one running gateway with its environment.
type World struct {
	T   *testing.T
	Cfg ScenarioCfg

	svc *server.Service
	mq  *MockMQ
	sim *Sim

	mu        sync.Mutex
	log       []Rec
	gates     []*gate
	gated     atomic.Bool
	clients   map[string]*Client
	https     map[string]*httpReq
	marks     map[string][]Rec    // unfilled frame marks per client
	evIDs     map[interface{}]int // resource event / subscription pointer -> id
	resetPats []string            // resource patterns of the system resets sent so far
	probes    int                 // connection attempts made while a Stop was in progress
	cidSym    map[string]string   // real cid -> symbolic id
	symCID    map[string]string
	pendSym   string // symbolic id to bind to the next conn.* subscription

	running  bool
	stopped  chan struct{}
	stopErr  []string
	stepNo   int
	dumped   int
	skipped  int
	executed int
	errlog   []string
}

// ScenarioCfg configures the gateway and the service simulator.
type ScenarioCfg struct {
	Family            string            `json:"family"`
	ResetThrottle     int               `json:"resetThrottle"`
	ReferenceThrottle int               `json:"referenceThrottle"`
	Free              bool              `json:"free"`
	Resources         map[string]SimRes `json:"resources"`
	QNorm             map[string]string `json:"qnorm"`
	AllowOrigin       string            `json:"allowOrigin"`
	HeaderAuth        string            `json:"headerAuth"`
	WSHeaderAuth      string            `json:"wsHeaderAuth"`
	APIEncoding       string            `json:"apiEncoding"`
	Mapped            bool              `json:"mapped"` // PUT, DELETE, PATCH mapped to call methods a, aa, aaa
}

type nopLogger struct{ w *World }

func (l nopLogger) Log(s string)   {}
func (l nopLogger) Debug(s string) {}
func (l nopLogger) Trace(s string) {}
func (l nopLogger) Error(s string) {
	l.w.mu.Lock()
	if len(l.w.errlog) < 50 {
		l.w.errlog = append(l.w.errlog, s)
	}
	l.w.mu.Unlock()
}
func (l nopLogger) IsDebug() bool { return false }
func (l nopLogger) IsTrace() bool { return false }

// NewWorld creates and starts a gateway. Must be called inside a synctest
// bubble.
func NewWorld(t *testing.T, cfg ScenarioCfg) *World {
	w := &World{
		T:       t,
		Cfg:     cfg,
		clients: map[string]*Client{},
		https:   map[string]*httpReq{},
		cidSym:  map[string]string{},
		marks:   map[string][]Rec{},
		evIDs:   map[interface{}]int{},
		symCID:  map[string]string{},
	}
	w.mq = newMockMQ(w)
	w.sim = newSim(w, cfg)
	var sc server.Config
	sc.SetDefault()
	sc.NoHTTP = true
	sc.MetricsPort = 8090
	sc.ResetThrottle = cfg.ResetThrottle
	sc.ReferenceThrottle = cfg.ReferenceThrottle
	if cfg.AllowOrigin != "" {
		sc.AllowOrigin = &cfg.AllowOrigin
	}
	if cfg.HeaderAuth != "" {
		sc.HeaderAuth = &cfg.HeaderAuth
	}
	if cfg.WSHeaderAuth != "" {
		sc.WSHeaderAuth = &cfg.WSHeaderAuth
	}
	if cfg.APIEncoding != "" {
		sc.APIEncoding = cfg.APIEncoding
	}
	if cfg.Family == "subjects" || cfg.Mapped {
		put, del, pat := "a", "aa", "aaa"
		sc.PUTMethod, sc.DELETEMethod, sc.PATCHMethod = &put, &del, &pat
	}
	svc, err := server.NewService(w.mq, sc)
	if err != nil {
		t.Fatalf("NewService: %v", err)
	}
	svc.SetLogger(nopLogger{w})
	w.svc = svc
	w.gated.Store(!cfg.Free)
	server.VerifGate = w.gate
	rescache.VerifGate = w.gate
	server.VerifNote = w.note
	rescache.VerifNote = w.note
	if err := svc.Start(); err != nil {
		t.Fatalf("Start: %v", err)
	}
	w.running = true
	w.watchStop()
	synctest.Wait()
	return w
}

func (w *World) watchStop() {
	ch := w.svc.StopChannel()
	if ch == nil {
		return
	}
	go func() {
		err, ok := <-ch
		if !ok {
			return
		}
		w.unstallAll()
		w.mu.Lock()
		s := ""
		if err != nil {
			s = err.Error()
		}
		w.logAdd(Rec{"e": "stopped", "err": s})
		w.running = false
		w.mu.Unlock()
	}()
}

// stall makes a client stop reading after the frame it is reading now.
func (w *World) stall(sym string) bool {
	w.mu.Lock()
	defer w.mu.Unlock()
	c := w.clients[sym]
	if c == nil || c.closed || c.eof || c.stalled {
		return false
	}
	c.stalled, c.resume = true, make(chan struct{})
	return true
}

// unstallAll is called when the service has stopped: whether the gateway has
// closed a stalled client's socket is probed by a write (a read would let a
// blocked gateway write through), then the client reads again.
func (w *World) unstallAll() {
	w.mu.Lock()
	var cs []*Client
	for _, c := range w.clients {
		if c.stalled {
			cs = append(cs, c)
		}
	}
	w.mu.Unlock()
	for _, c := range cs {
		err := c.ws.WriteControl(websocket.PingMessage, nil, time.Now().Add(10*time.Millisecond))
		w.mu.Lock()
		w.logAdd(Rec{"e": "stallprobe", "c": c.sym, "open": err == nil})
		c.stalled = false
		close(c.resume)
		w.mu.Unlock()
	}
}

func (w *World) gate(kind, id string) {
	if kind == "evict" {
		// the eviction callback has left the timer queue
		w.note("evictPop", "name", id)
	}
	if !w.gated.Load() {
		return
	}
	g := &gate{kind: kind, id: id, ch: make(chan struct{})}
	w.mu.Lock()
	w.gates = append(w.gates, g)
	w.mu.Unlock()
	<-g.ch
}

func (w *World) note(kind string, kv ...interface{}) {
	r := Rec{"e": "note", "kind": kind}
	for i := 0; i+1 < len(kv); i += 2 {
		r[kv[i].(string)] = kv[i+1]
	}
	w.mu.Lock()
	if kind == "frame" {
		// placeholder that the frame read by the client is put into, so that
		// frames appear in the trace at the point where they were written
		cid, _ := r["cid"].(string)
		m := Rec{"e": "fmark", "c": w.symOf(cid)}
		w.logAdd(m)
		w.marks[m["c"].(string)] = append(w.marks[m["c"].(string)], m)
		w.mu.Unlock()
		return
	}
	if cid, ok := r["cid"].(string); ok {
		r["c"] = w.symOf(cid)
		// ck: the connection object itself (a symbol is used again when a client reconnects)
		id, ok := w.evIDs["cid:"+cid]
		if !ok {
			id = len(w.evIDs) + 1
			w.evIDs["cid:"+cid] = id
		}
		r["ck"] = id
		delete(r, "cid")
	}
	for _, key := range [...]string{"evp", "sp", "ep", "rp", "csp", "rcb"} {
		if p, ok := r[key]; ok {
			// identity of a resource event / subscription object: small
			// integers in order of first appearance. The map keeps the
			// objects reachable, so an address is never reused.
			id, ok := w.evIDs[p]
			if !ok {
				id = len(w.evIDs) + 1
				w.evIDs[p] = id
			}
			r[key] = id
		}
	}
	if rid, ok := r["rid"].(string); ok {
		r["rid"] = w.symText(rid)
	}
	if rid, ok := r["crid"].(string); ok {
		r["crid"] = w.symText(rid)
	}
	if n, ok := r["name"].(string); ok && kind == "resetres" {
		// C12 "exactly the matching resources": does any reset sent so far list a pattern matching the name?
		m := false
		for _, p := range w.resetPats {
			if PatternMatch(p, n) {
				m = true
			}
		}
		r["matched"] = m
	}
	if n, ok := r["name"].(string); ok {
		if v, ok := r["n"]; ok {
			r["num"] = v
		}
		r["n"] = w.symText(n)
		delete(r, "name")
		if q, ok := r["query"].(string); ok {
			r["key"] = key(r["n"].(string), q)
		}
	}
	w.logAdd(r)
	w.mu.Unlock()
}

// symOf maps a real cid to its symbolic id. w.mu must be held.
func (w *World) symOf(cid string) string {
	if s, ok := w.cidSym[cid]; ok {
		return s
	}
	return "?"
}

// symText replaces every real cid in s by its symbolic id. w.mu must be held.
func (w *World) symText(s string) string {
	for cid, sym := range w.cidSym {
		if strings.Contains(s, cid) {
			s = strings.ReplaceAll(s, cid, sym)
		}
	}
	return s
}

// leaks returns the symbolic ids of all connections whose real cid occurs in
// the frame. w.mu must be held.
func (w *World) leaks(frame []byte) []string {
	out := []string{}
	for cid, sym := range w.cidSym {
		if bytes.Contains(frame, []byte(cid)) {
			out = append(out, sym)
		}
	}
	sort.Strings(out)
	return out
}

// logAdd appends a record to the trace. w.mu must be held.
func (w *World) logAdd(r Rec) {
	w.log = append(w.log, r)
	if debugTrace && r["e"] != "fmark" && r["e"] != "step" {
		b, _ := json.Marshal(r)
		fmt.Fprintln(os.Stderr, string(b))
	}
}

func (w *World) add(r Rec) {
	w.mu.Lock()
	w.logAdd(r)
	w.mu.Unlock()
}

// pendingGates returns the pending gates sorted by kind and id.
func (w *World) pendingGates() []*gate {
	w.mu.Lock()
	gs := append([]*gate{}, w.gates...)
	w.mu.Unlock()
	sort.SliceStable(gs, func(i, j int) bool {
		if gs[i].kind != gs[j].kind {
			return gs[i].kind < gs[j].kind
		}
		return w.gateSym(gs[i]) < w.gateSym(gs[j])
	})
	return gs
}

func (w *World) gateSym(g *gate) string {
	w.mu.Lock()
	defer w.mu.Unlock()
	if g.kind == "conn" {
		return w.symOf(g.id)
	}
	return w.symText(g.id)
}

func (w *World) release(g *gate) {
	w.mu.Lock()
	for i, x := range w.gates {
		if x == g {
			w.gates = append(w.gates[:i], w.gates[i+1:]...)
			break
		}
	}
	w.mu.Unlock()
	close(g.ch)
}

func (w *World) releaseAll() {
	w.gated.Store(false)
	w.mu.Lock()
	gs := w.gates
	w.gates = nil
	w.mu.Unlock()
	for _, g := range gs {
		close(g.ch)
	}
}

// findGate returns the first pending gate of the kind whose symbolic id
// matches.
func (w *World) findGate(kind, sym string) *gate {
	for _, g := range w.pendingGates() {
		if g.kind == kind && w.gateSym(g) == sym {
			return g
		}
	}
	return nil
}

// ---------------------------------------------------------------- clients

func (w *World) openClient(sym, ver string, hdr http.Header) bool {
	if _, ok := w.clients[sym]; ok {
		return false
	}
	if !w.running {
		// refused connections are exercised by the lifecycle family
		return w.openRefused(sym)
	}
	w.mu.Lock()
	w.pendSym = sym
	w.mu.Unlock()
	d := wstest.NewDialer(w.svc.GetWSHandlerFunc())
	ws, _, err := d.Dial("ws://example.org/", hdr)
	w.mu.Lock()
	w.pendSym = ""
	w.mu.Unlock()
	if err != nil {
		w.add(Rec{"e": "openfail", "c": sym, "err": err.Error()})
		return true
	}
	c := &Client{sym: sym, ws: ws, ver: ver, nextID: 1, out: map[int]bool{}}
	w.mu.Lock()
	c.cid = w.symCID[sym]
	w.mu.Unlock()
	w.clients[sym] = c
	go func() {
		for {
			_, data, err := ws.ReadMessage()
			w.mu.Lock()
			if err != nil {
				c.eof = true
				w.mu.Unlock()
				return
			}
			c.inbox = append(c.inbox, data)
			resume := c.resume
			stalled := c.stalled
			w.mu.Unlock()
			if stalled {
				<-resume
			}
		}
	}()
	lg := ver == "1.1.1" || ver == "1.2.0" || ver == "none"
	w.add(Rec{"e": "open", "c": sym, "ver": ver, "lg": lg, "http": false})
	if ver != "none" {
		p := ver
		if ver == "latest" {
			p = "1.999.999"
		}
		msg := fmt.Sprintf(`{"id":0,"method":"version","params":{"protocol":"%s"}}`, p)
		ws.WriteMessage(websocket.TextMessage, []byte(msg))
		synctest.Wait()
		if g := w.findGate("conn", sym); g != nil {
			w.release(g)
			synctest.Wait()
		}
		// consume the version response silently
		w.mu.Lock()
		if len(c.inbox) > 0 {
			c.inbox = c.inbox[1:]
			if ms := w.marks[sym]; len(ms) > 0 {
				ms[0]["e"] = "fdrop"
				w.marks[sym] = ms[1:]
			}
		}
		w.mu.Unlock()
	}
	return true
}

func (w *World) openRefused(sym string) bool {
	rr := httptest.NewRecorder()
	req := httptest.NewRequest("GET", "http://example.org/", nil)
	req.Header.Set("Connection", "Upgrade")
	req.Header.Set("Upgrade", "websocket")
	req.Header.Set("Sec-WebSocket-Version", "13")
	req.Header.Set("Sec-WebSocket-Key", "dGhlIHNhbXBsZSBub25jZQ==")
	done := make(chan struct{})
	go func() {
		defer close(done)
		w.svc.GetWSHandlerFunc().ServeHTTP(rr, req)
	}()
	synctest.Wait()
	upgraded := rr.Code == http.StatusSwitchingProtocols
	select {
	case <-done:
	default:
		upgraded = true
	}
	w.add(Rec{"e": "openRefused", "c": sym, "upgraded": upgraded, "status": rr.Code})
	return true
}

func (w *World) sendFrame(sym string, frame []byte) bool {
	c := w.clients[sym]
	if c == nil || c.closed || c.eof {
		return false
	}
	c.ws.WriteMessage(websocket.TextMessage, frame)
	return true
}

func (w *World) closeClient(sym string) bool {
	c := w.clients[sym]
	if c == nil || c.closed {
		return false
	}
	c.closed = true
	c.ws.Close()
	w.mu.Lock()
	if c.stalled {
		c.stalled = false
		close(c.resume)
	}
	w.mu.Unlock()
	w.add(Rec{"e": "close", "c": sym})
	return true
}

// drainFrames moves all received client frames and completed HTTP
// responses into the log.
func (w *World) drainFrames() {
	syms := make([]string, 0, len(w.clients))
	for s := range w.clients {
		syms = append(syms, s)
	}
	sort.Strings(syms)
	for _, s := range syms {
		c := w.clients[s]
		w.mu.Lock()
		in := c.inbox
		c.inbox = nil
		eof := c.eof && !c.eofSeen
		if eof {
			c.eofSeen = true
		}
		for _, f := range in {
			r := w.normFrame(c, f)
			if r["e"] == "cres" {
				id, _ := r["id"].(int)
				delete(c.out, id)
				if c.soloOut && id == c.soloID {
					c.soloOut = false
				}
			}
			if ms := w.marks[s]; len(ms) > 0 {
				m := ms[0]
				w.marks[s] = ms[1:]
				for k, v := range r {
					m[k] = v
				}
			} else {
				w.logAdd(r)
			}
		}
		if eof {
			w.logAdd(Rec{"e": "sockClosed", "c": s})
		}
		w.mu.Unlock()
	}
	hs := make([]string, 0, len(w.https))
	for s := range w.https {
		hs = append(hs, s)
	}
	sort.Strings(hs)
	for _, s := range hs {
		h := w.https[s]
		w.mu.Lock()
		if h.done && !h.seen {
			h.seen = true
			w.logAdd(w.normHTTP(h))
		}
		w.mu.Unlock()
	}
}

// ---------------------------------------------------------------- http

func (w *World) httpDo(sym, method, path string, body string, hdr map[string]string) bool {
	if _, ok := w.https[sym]; ok {
		return false
	}
	var rd io.Reader = http.NoBody
	if body != "" {
		rd = strings.NewReader(body)
	}
	req, err := http.NewRequest(method, "http://example.org"+path, rd)
	if err != nil {
		return false
	}
	for k, v := range hdr {
		req.Header.Set(k, v)
	}
	h := &httpReq{sym: sym, rr: httptest.NewRecorder(), meth: method}
	w.https[sym] = h
	w.mu.Lock()
	w.pendSym = sym
	w.logAdd(Rec{"e": "http", "c": sym, "method": method, "path": path})
	w.mu.Unlock()
	go func() {
		w.svc.ServeHTTP(h.rr, req)
		w.mu.Lock()
		h.done = true
		w.mu.Unlock()
	}()
	synctest.Wait()
	w.mu.Lock()
	w.pendSym = ""
	w.mu.Unlock()
	return true
}

// ---------------------------------------------------------------- snapshot

func (w *World) snapshot() server.VerifSnap {
	return w.svc.VerifSnapshot()
}

func (w *World) gauges() (int, int) {
	h := w.svc.MetricsHandler()
	if h == nil {
		return -999, -999
	}
	rr := httptest.NewRecorder()
	req := httptest.NewRequest("GET", "/metrics", nil)
	h.ServeHTTP(rr, req)
	res, subs := -999, -999
	for _, ln := range strings.Split(rr.Body.String(), "\n") {
		var v float64
		if strings.HasPrefix(ln, "resgate_cache_resources ") {
			fmt.Sscanf(ln, "resgate_cache_resources %g", &v)
			res = int(v)
		}
		if strings.HasPrefix(ln, "resgate_cache_subscriptions ") {
			fmt.Sscanf(ln, "resgate_cache_subscriptions %g", &v)
			subs = int(v)
		}
	}
	return res, subs
}

// Teardown stops everything and leaves the bubble in a state where it can
// return.
// resumeStalled lets every stalled client read again (a stall lasts until the
// next quiescent point, Stop or close).
func (w *World) resumeStalled() {
	w.mu.Lock()
	for _, c := range w.clients {
		if c.stalled {
			c.stalled = false
			close(c.resume)
		}
	}
	w.mu.Unlock()
}

func (w *World) Teardown() {
	w.releaseAll()
	w.resumeStalled()
	synctest.Wait()
	for _, c := range w.clients {
		if !c.closed {
			c.closed = true
			c.ws.Close()
		}
	}
	synctest.Wait()
	w.mq.failAll()
	synctest.Wait()
	w.svc.Stop(nil)
	time.Sleep(30 * time.Second)
	synctest.Wait()
	server.VerifGate = nil
	rescache.VerifGate = nil
	server.VerifNote = nil
	rescache.VerifNote = nil
}

// Log returns the trace so far.
func (w *World) Log() []Rec {
	w.mu.Lock()
	defer w.mu.Unlock()
	out := make([]Rec, 0, len(w.log))
	for _, r := range w.log {
		if r["e"] == "fmark" || r["e"] == "fdrop" {
			continue
		}
		out = append(out, r)
	}
	return out
}

func mustJSON(v any) []byte {
	b, err := json.Marshal(v)
	if err != nil {
		panic(err)
	}
	return b
}
