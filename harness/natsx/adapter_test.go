package natsx

import (
	"bufio"
	"encoding/json"
	"fmt"
	"math/rand"
	"os"
	"path/filepath"
	"strconv"
	"strings"
	"sync"
	"testing"
	"time"

	resnats "github.com/resgateio/resgate/nats"
)

type nopLog struct{}

func (nopLog) Log(string)    {}
func (nopLog) Debug(string)  {}
func (nopLog) Trace(string)  {}
func (nopLog) Error(string)  {}
func (nopLog) IsDebug() bool { return false }
func (nopLog) IsTrace() bool { return false }

type completion struct {
	kind string // reply, timeout, notFound, tooLong, other
	at   time.Duration
	data string
}

const reqTimeout = 60 * time.Millisecond

// behaviours: subject suffix -> what the scripted service does
//   none           never replies
//   one.<ms>       replies once after ms
//   two.<ms>       replies twice after ms
//   pre.<e>.<ms>   pre-response timeout:"e" at once, reply after ms (0 = never)
//   pre2.<e>.<ms>  two pre-responses (at 0 and at 20ms), reply after ms
//   noresp         the server reports no responders
func service(s *Server, p Pub) {
	if p.Reply == "" {
		return
	}
	f := strings.Split(p.Subj, ".")
	if len(f) < 3 {
		return
	}
	ms := func(i int) time.Duration {
		if i >= len(f) {
			return 0
		}
		n, _ := strconv.Atoi(f[i])
		return time.Duration(n) * time.Millisecond
	}
	reply := []byte(`{"result":"` + p.Subj + `"}`)
	switch f[2] {
	case "one":
		After(ms(3), func() { s.Send(p.Reply, reply) })
	case "two":
		After(ms(3), func() { s.Send(p.Reply, reply); s.Send(p.Reply, reply) })
	case "pre":
		s.Send(p.Reply, []byte(`timeout:"`+f[3]+`"`))
		if ms(4) > 0 {
			After(ms(4), func() { s.Send(p.Reply, reply) })
		}
	case "pre2":
		s.Send(p.Reply, []byte(`timeout:"`+f[3]+`"`))
		After(20*time.Millisecond, func() { s.Send(p.Reply, []byte(`timeout:"`+f[3]+`"`)) })
		if ms(4) > 0 {
			After(ms(4), func() { s.Send(p.Reply, reply) })
		}
	case "noresp":
		s.SendNoResponders(p.Reply)
	}
}

// TestTraceAdapter sends many concurrent requests with scripted reply
// behaviours through the real NATS adapter and records every completion.
func TestTraceAdapter(t *testing.T) {
	dir := os.Getenv("VERIF_OUT")
	if dir == "" {
		t.Skip("VERIF_OUT not set")
	}
	f, err := os.Create(filepath.Join(dir, "adapter.ndjson"))
	if err != nil {
		t.Fatal(err)
	}
	defer f.Close()
	bw := bufio.NewWriter(f)
	defer bw.Flush()
	enc := json.NewEncoder(bw)
	rounds, _ := strconv.Atoi(os.Getenv("VERIF_NATS_ROUNDS"))
	if rounds == 0 {
		rounds = 3
	}
	sd, _ := strconv.Atoi(os.Getenv("VERIF_SEED"))
	rnd := rand.New(rand.NewSource(int64(sd) + 1))
	behs := []string{"none", "one.5", "one.30", "one.55", "one.58", "one.60", "one.62", "one.65", "one.120", "two.10", "two.59",
		"pre.100.30", "pre.100.90", "pre.100.0", "pre.40.0", "pre.150.140", "pre2.80.70", "pre2.80.0", "pre.x.30", "noresp"}
	for round := 0; round < rounds; round++ {
		srv, err := Start()
		if err != nil {
			t.Fatal(err)
		}
		srv.OnPub = service
		var closedMu sync.Mutex
		closed := []string{}
		c := &resnats.Client{RequestTimeout: reqTimeout, URL: srv.URL(), Logger: nopLog{}, BufferSize: 8192}
		if err := c.Connect(); err != nil {
			t.Fatal(err)
		}
		c.SetClosedHandler(func(err error) {
			closedMu.Lock()
			closed = append(closed, err.Error())
			closedMu.Unlock()
		})
		var mu sync.Mutex
		comps := map[string][]completion{}
		sent := map[string]time.Time{}
		var order []string
		// event subscription: callbacks must arrive in publish order
		var evs []string
		unsub, err := c.Subscribe("event.x", func(subj string, data []byte, _ error) {
			mu.Lock()
			evs = append(evs, string(data))
			mu.Unlock()
		})
		if err != nil {
			t.Fatal(err)
		}
		n := 60
		for i := 0; i < n; i++ {
			b := behs[rnd.Intn(len(behs))]
			subj := fmt.Sprintf("call.r%d.%s", i, b)
			start := time.Now()
			mu.Lock()
			sent[subj] = start
			order = append(order, subj)
			mu.Unlock()
			c.SendRequest(subj, []byte(`{}`), func(_ string, data []byte, err error) {
				k := "reply"
				if err != nil {
					switch err.Error() {
					case "Request timeout":
						k = "timeout"
					case "Not found":
						k = "notFound"
					case "Subject too long":
						k = "tooLong"
					default:
						k = "other:" + err.Error()
					}
				}
				mu.Lock()
				comps[subj] = append(comps[subj], completion{k, time.Since(start), string(data)})
				mu.Unlock()
			})
			if i%7 == 0 {
				time.Sleep(time.Duration(rnd.Intn(3)) * time.Millisecond)
			}
			if i%5 == 0 {
				srv.Send("event.x.e", []byte(strconv.Itoa(i)))
			}
		}
		time.Sleep(400 * time.Millisecond)
		unsub.Unsubscribe()
		srv.Send("event.x.e", []byte("after-unsubscribe"))
		time.Sleep(20 * time.Millisecond)
		mu.Lock()
		for _, subj := range order {
			cl := []any{}
			for _, x := range comps[subj] {
				cl = append(cl, map[string]any{"kind": x.kind, "ms": int(x.at / time.Millisecond)})
			}
			beh := strings.SplitN(subj, ".", 3)[2]
			bf := strings.Split(beh, ".")
			num := func(i int) int {
				if i < len(bf) {
					n, err := strconv.Atoi(bf[i])
					if err == nil {
						return n
					}
				}
				return -1
			}
			enc.Encode(map[string]any{"e": "req", "round": round, "beh": bf[0], "a": num(1), "b": num(2), "comps": cl, "timeout": int(reqTimeout / time.Millisecond)})
		}
		el := make([]any, len(evs))
		for i, x := range evs {
			el[i] = x
		}
		enc.Encode(map[string]any{"e": "events", "round": round, "got": el})
		mu.Unlock()
		closedMu.Lock()
		enc.Encode(map[string]any{"e": "closed", "round": round, "n": len(closed), "when": "before-disconnect"})
		closedMu.Unlock()
		// loss of the server connection invokes the closed handler
		srv.Disconnect()
		time.Sleep(100 * time.Millisecond)
		closedMu.Lock()
		enc.Encode(map[string]any{"e": "closed", "round": round, "n": len(closed), "when": "after-disconnect"})
		closedMu.Unlock()
		c.Close()
		srv.Stop()
	}
	// control line sweep: subjects around the limit
	srv, err := Start()
	if err != nil {
		t.Fatal(err)
	}
	srv.OnPub = func(s *Server, p Pub) {
		if p.Reply != "" {
			s.Send(p.Reply, []byte(`{"result":1}`))
		}
	}
	lost := 0
	c := &resnats.Client{RequestTimeout: reqTimeout, URL: srv.URL(), Logger: nopLog{}, BufferSize: 8192}
	if err := c.Connect(); err != nil {
		t.Fatal(err)
	}
	c.SetClosedHandler(func(error) { lost++ })
	for l := 4040; l <= 4110; l++ {
		subj := "call." + strings.Repeat("a", l-5)
		done := make(chan string, 2)
		c.SendRequest(subj, []byte(`{"p":1}`), func(_ string, _ []byte, err error) {
			if err != nil {
				done <- err.Error()
			} else {
				done <- "reply"
			}
		})
		res := "none"
		select {
		case res = <-done:
		case <-time.After(300 * time.Millisecond):
		}
		srv.mu.Lock()
		exceeded, maxArg := srv.Exceeded, srv.MaxArgLen
		srv.mu.Unlock()
		enc.Encode(map[string]any{"e": "line", "len": l, "res": res, "exceeded": exceeded, "maxarg": maxArg, "lost": lost})
		if exceeded {
			break
		}
	}
	// subscribe namespaces around the limit
	for l := 4080; l <= 4100; l++ {
		ns := "event." + strings.Repeat("a", l-6)
		_, err := c.Subscribe(ns, func(string, []byte, error) {})
		time.Sleep(5 * time.Millisecond)
		srv.mu.Lock()
		exceeded, maxArg := srv.Exceeded, srv.MaxArgLen
		srv.mu.Unlock()
		es := ""
		if err != nil {
			es = err.Error()
		}
		enc.Encode(map[string]any{"e": "subline", "len": l, "err": es, "exceeded": exceeded, "maxarg": maxArg, "lost": lost})
		if exceeded {
			break
		}
	}
	c.Close()
	srv.Stop()
}
