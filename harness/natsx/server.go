// Package natsx is a minimal in-process NATS text-protocol server with
// scripted service behaviours, used to exercise the real nats adapter.
package natsx

import (
	"bufio"
	"fmt"
	"net"
	"strconv"
	"strings"
	"sync"
	"time"
)

const maxControlLine = 4096

// Pub is one publish seen by the server.
type Pub struct {
	Subj, Reply string
	Data        []byte
	ArgLen      int
}

// Server is a single-connection-at-a-time mini NATS server.
type Server struct {
	ln   net.Listener
	mu   sync.Mutex
	conn net.Conn
	w    *bufio.Writer
	subs map[string]string // subject -> sid (exact or ending in .*)
	// OnPub is called (in its own goroutine) for every publish.
	OnPub     func(s *Server, p Pub)
	MaxArgLen int  // longest control line argument seen
	Exceeded  bool // a control line over the limit was received (connection closed as the real server does)
	Pubs      []Pub
	SubArgs   []int
}

// Start listens on a loopback port.
func Start() (*Server, error) {
	ln, err := net.Listen("tcp", "127.0.0.1:0")
	if err != nil {
		return nil, err
	}
	s := &Server{ln: ln, subs: map[string]string{}}
	go s.accept()
	return s, nil
}

// URL returns the nats:// url of the server.
func (s *Server) URL() string { return "nats://" + s.ln.Addr().String() }

// Stop closes the listener and the connection.
func (s *Server) Stop() {
	s.ln.Close()
	s.Disconnect()
}

// Disconnect drops the client connection.
func (s *Server) Disconnect() {
	s.mu.Lock()
	if s.conn != nil {
		s.conn.Close()
	}
	s.mu.Unlock()
}

func (s *Server) accept() {
	for {
		c, err := s.ln.Accept()
		if err != nil {
			return
		}
		s.mu.Lock()
		s.conn = c
		s.w = bufio.NewWriter(c)
		s.subs = map[string]string{}
		s.mu.Unlock()
		go s.serve(c)
	}
}

func (s *Server) write(b string) {
	s.mu.Lock()
	defer s.mu.Unlock()
	if s.w == nil {
		return
	}
	s.w.WriteString(b)
	s.w.Flush()
}

func (s *Server) serve(c net.Conn) {
	s.write(`INFO {"server_id":"natsx","version":"2.6.6","proto":1,"headers":true,"max_payload":1048576}` + "\r\n")
	r := bufio.NewReaderSize(c, 1<<16)
	for {
		line, err := r.ReadString('\n')
		if err != nil {
			return
		}
		line = strings.TrimRight(line, "\r\n")
		op, arg, _ := strings.Cut(line, " ")
		switch strings.ToUpper(op) {
		case "CONNECT":
		case "PING":
			s.write("PONG\r\n")
		case "PONG":
		case "SUB":
			if s.tooLong(arg) {
				return
			}
			f := strings.Fields(arg)
			if len(f) >= 2 {
				s.mu.Lock()
				s.subs[f[0]] = f[len(f)-1]
				s.SubArgs = append(s.SubArgs, len(arg))
				s.mu.Unlock()
			}
		case "UNSUB":
			f := strings.Fields(arg)
			if len(f) >= 1 {
				s.mu.Lock()
				for k, v := range s.subs {
					if v == f[0] {
						delete(s.subs, k)
					}
				}
				s.mu.Unlock()
			}
		case "PUB", "HPUB":
			if s.tooLong(arg) {
				return
			}
			f := strings.Fields(arg)
			if len(f) < 2 {
				return
			}
			n, _ := strconv.Atoi(f[len(f)-1])
			buf := make([]byte, n+2)
			if _, err := readFull(r, buf); err != nil {
				return
			}
			p := Pub{Subj: f[0], Data: buf[:n], ArgLen: len(arg)}
			if (op == "PUB" && len(f) == 3) || (op == "HPUB" && len(f) == 4) {
				p.Reply = f[1]
			}
			s.mu.Lock()
			s.Pubs = append(s.Pubs, p)
			cb := s.OnPub
			s.mu.Unlock()
			if cb != nil {
				go cb(s, p)
			}
		}
	}
}

func readFull(r *bufio.Reader, b []byte) (int, error) {
	n := 0
	for n < len(b) {
		m, err := r.Read(b[n:])
		n += m
		if err != nil {
			return n, err
		}
	}
	return n, nil
}

// tooLong applies the real server's rule: the control line arguments must
// not exceed MAX_CONTROL_LINE_SIZE; otherwise the connection is closed.
func (s *Server) tooLong(arg string) bool {
	s.mu.Lock()
	if len(arg) > s.MaxArgLen {
		s.MaxArgLen = len(arg)
	}
	over := len(arg) > maxControlLine
	if over {
		s.Exceeded = true
	}
	s.mu.Unlock()
	if over {
		s.write("-ERR 'Maximum Control Line Exceeded'\r\n")
		s.Disconnect()
	}
	return over
}

func (s *Server) sidFor(subj string) (string, bool) {
	s.mu.Lock()
	defer s.mu.Unlock()
	if sid, ok := s.subs[subj]; ok {
		return sid, true
	}
	for pat, sid := range s.subs {
		if strings.HasSuffix(pat, ".*") && strings.HasPrefix(subj, pat[:len(pat)-1]) && !strings.Contains(subj[len(pat)-1:], ".") {
			return sid, true
		}
	}
	return "", false
}

// Send delivers a message to the subscription matching subj, if any.
func (s *Server) Send(subj string, data []byte) bool {
	sid, ok := s.sidFor(subj)
	if !ok {
		return false
	}
	s.write(fmt.Sprintf("MSG %s %s %d\r\n%s\r\n", subj, sid, len(data), data))
	return true
}

// SendNoResponders delivers the empty 503 status message.
func (s *Server) SendNoResponders(subj string) bool {
	sid, ok := s.sidFor(subj)
	if !ok {
		return false
	}
	hdr := "NATS/1.0 503\r\n\r\n"
	s.write(fmt.Sprintf("HMSG %s %s %d %d\r\n%s\r\n", subj, sid, len(hdr), len(hdr), hdr))
	return true
}

// After runs f after d.
func After(d time.Duration, f func()) { time.AfterFunc(d, f) }
