------------------------------ MODULE CacheEntry ------------------------------
(***************************************************************************)
(* Lifecycle of one cache entry (rescache.go getSubscription / mqUnsubscribe, *)
(* eventSubscription.go addCount / removeCount, the subscriber set of its     *)
(* resource, in-flight requests, the eviction timer queue).  Every action is  *)
(* one critical section of the code.  The pure operators (GetSub, RemCount,   *)
(* EvictRun) are shared with the trace specification, which replays the       *)
(* notes taken at those critical sections of the real gateway.                *)
(***************************************************************************)
EXTENDS CacheOps, Sequences, FiniteSets

-----------------------------------------------------------------------------
CONSTANTS Subscribers, MaxReq, MaxPopped

VARIABLES e,        \* the entry
          joining,  \* subscribers counted by getSubscription whose addSubscriber closure has not run yet
          subs,     \* subscribers registered on the resource
          loaded,   \* resource content present (get answered)
          reqs,     \* in-flight access / call / auth requests
          popped,   \* eviction callbacks that left the timer queue and wait for the cache lock
          gsubs, gres   \* the two gauges

vars == <<e, joining, subs, loaded, reqs, popped, gsubs, gres>>

Init == e = NoEntry /\ joining = {} /\ subs = {} /\ loaded = FALSE /\ reqs = 0 /\ popped = 0 /\ gsubs = 0 /\ gres = 0

(* Cache.Subscribe: getSubscription(name, TRUE), then the subscriber is queued on the entry *)
Subscribe(s) ==
    /\ s \notin joining \cup subs
    /\ e' = GetSub(e, TRUE)
    /\ joining' = joining \cup {s}
    /\ gsubs' = gsubs + 1 /\ gres' = IF e.present THEN gres ELSE gres + 1
    /\ UNCHANGED <<subs, loaded, reqs, popped>>

(* the addSubscriber closure: registers the subscriber *)
AddSubscriber(s) ==
    /\ s \in joining
    /\ joining' = joining \ {s} /\ subs' = subs \cup {s}
    /\ UNCHANGED <<e, loaded, reqs, popped, gsubs, gres>>

GetOK == /\ subs # {} /\ ~loaded /\ loaded' = TRUE /\ UNCHANGED <<e, joining, subs, reqs, popped, gsubs, gres>>

(* failed get: all registered subscribers are released at once *)
GetErr ==
    /\ subs # {} /\ ~loaded
    /\ RemCountSafe(e, Cardinality(subs))
    /\ e' = RemCount(e, Cardinality(subs)) /\ gsubs' = gsubs - Cardinality(subs)
    /\ subs' = {} /\ UNCHANGED <<joining, loaded, reqs, popped, gres>>

(* delete event: likewise, and the content is dropped *)
DeleteEvent ==
    /\ loaded
    /\ RemCountSafe(e, Cardinality(subs))
    /\ e' = RemCount(e, Cardinality(subs)) /\ gsubs' = gsubs - Cardinality(subs)
    /\ subs' = {} /\ loaded' = FALSE /\ UNCHANGED <<joining, reqs, popped, gres>>

(* ResourceSubscription.Unsubscribe closure: only a registered subscriber releases a use *)
Unsubscribe(s) ==
    /\ s \in subs
    /\ RemCountSafe(e, 1)
    /\ subs' = subs \ {s} /\ e' = RemCount(e, 1) /\ gsubs' = gsubs - 1
    /\ UNCHANGED <<joining, loaded, reqs, popped, gres>>

(* a subscriber released by a delete / failed get disposes later: nothing to release *)
LateUnsubscribe == UNCHANGED vars

SendRequest ==
    /\ reqs < MaxReq
    /\ e' = GetSub(e, FALSE) /\ reqs' = reqs + 1
    /\ gsubs' = gsubs + 1 /\ gres' = IF e.present THEN gres ELSE gres + 1
    /\ UNCHANGED <<joining, subs, loaded, popped>>

RequestDone ==
    /\ reqs > 0
    /\ RemCountSafe(e, 1)
    /\ e' = RemCount(e, 1) /\ reqs' = reqs - 1 /\ gsubs' = gsubs - 1
    /\ UNCHANGED <<joining, subs, loaded, popped, gres>>

TimerPop ==
    /\ e.evq /\ popped < MaxPopped
    /\ e' = [e EXCEPT !.evq = FALSE] /\ popped' = popped + 1
    /\ UNCHANGED <<joining, subs, loaded, reqs, gsubs, gres>>

EvictCallback ==
    /\ popped > 0 /\ popped' = popped - 1
    /\ IF e.present /\ e.count = 0
       THEN e' = NoEntry /\ loaded' = FALSE /\ gres' = gres - 1
       ELSE UNCHANGED <<e, loaded, gres>>
    /\ UNCHANGED <<joining, subs, reqs, gsubs>>

Next ==
    \/ \E s \in Subscribers : Subscribe(s) \/ AddSubscriber(s) \/ Unsubscribe(s)
    \/ GetOK \/ GetErr \/ DeleteEvent \/ SendRequest \/ RequestDone \/ TimerPop \/ EvictCallback

Spec == Init /\ [][Next]_vars /\ WF_vars(TimerPop) /\ WF_vars(EvictCallback)

-----------------------------------------------------------------------------
CountIsUses == e.count = Cardinality(joining) + Cardinality(subs) + reqs
NeverNegative == e.count >= 0
KeptWhileUsed == (joining \cup subs # {} \/ reqs > 0) => e.present
QueuedOnlyIdle == e.evq => e.count = 0
IdleIsQueued == (e.present /\ e.count = 0) => (e.evq \/ popped > 0)
Gauges == gsubs = e.count /\ gres = (IF e.present THEN 1 ELSE 0)
SubscribedBeforeFetch == subs # {} => e.mq
(* with no users the entry is eventually released (unless it is used again) *)
Released == [](e.present /\ e.count = 0 => <>(~e.present \/ e.count > 0))
=============================================================================
