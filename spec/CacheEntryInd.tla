--------------------------- MODULE CacheEntryInd ---------------------------
(***************************************************************************)
(* Inductive-invariant check of CacheEntry.tla with Apalache: the entry's  *)
(* safety properties hold in every state satisfying IndInv and every step  *)
(* preserves IndInv - for any number of queued requests and popped         *)
(* eviction callbacks within the constants, at any depth.                  *)
(***************************************************************************)
EXTENDS Integers, Sequences, FiniteSets, Apalache

CONSTANTS
    \* @type: Set(Str);
    Subscribers,
    \* @type: Int;
    MaxReq,
    \* @type: Int;
    MaxPopped

VARIABLES
    \* @type: { present: Bool, count: Int, mq: Bool, evq: Bool };
    e,
    \* @type: Set(Str);
    joining,
    \* @type: Set(Str);
    subs,
    \* @type: Bool;
    loaded,
    \* @type: Int;
    reqs,
    \* @type: Int;
    popped,
    \* @type: Int;
    gsubs,
    \* @type: Int;
    gres

INSTANCE CacheEntry

ConstInit == Subscribers = {"s1", "s2", "s3", "s4", "s5"} /\ MaxReq \in 1..6 /\ MaxPopped \in 1..4

IndInv ==
    /\ joining \subseteq Subscribers /\ subs \subseteq Subscribers /\ joining \cap subs = {}
    /\ reqs \in 0..MaxReq /\ popped \in 0..MaxPopped
    /\ (~e.present => e = NoEntry)
    /\ (joining # {} => e.mq)
    /\ CountIsUses /\ NeverNegative /\ KeptWhileUsed /\ QueuedOnlyIdle /\ IdleIsQueued /\ Gauges /\ SubscribedBeforeFetch

IndInit ==
    /\ e = Gen(1) /\ joining = Gen(5) /\ subs = Gen(5) /\ loaded = Gen(1) /\ reqs = Gen(1) /\ popped = Gen(1)
    /\ gsubs = Gen(1) /\ gres = Gen(1)
    /\ IndInv

Safety == CountIsUses /\ NeverNegative /\ KeptWhileUsed /\ QueuedOnlyIdle /\ IdleIsQueued /\ Gauges /\ SubscribedBeforeFetch
=============================================================================
