------------------------------ MODULE CacheOps ------------------------------
(***************************************************************************)
(* The critical sections of a cache entry as pure operators on the entry   *)
(* record.  Shared by CacheEntry.tla (exhaustive model) and CacheTrace.tla *)
(* (replay of the notes taken inside those critical sections).             *)
(***************************************************************************)
EXTENDS Integers

(* entry: [present, count, mq, evq]; evq = waiting in the eviction timer queue *)
\* @type: { present: Bool, count: Int, mq: Bool, evq: Bool };
NoEntry == [present |-> FALSE, count |-> 0, mq |-> FALSE, evq |-> FALSE]

(* getSubscription(name, subscribe): new entry with count 1, or addCount (leaving the eviction queue) *)
\* @type: ({ present: Bool, count: Int, mq: Bool, evq: Bool }, Bool) => { present: Bool, count: Int, mq: Bool, evq: Bool };
GetSub(e, subscribe) ==
    IF ~e.present THEN [present |-> TRUE, count |-> 1, mq |-> subscribe, evq |-> FALSE]
    ELSE [e EXCEPT !.count = @ + 1, !.evq = IF e.count = 0 THEN FALSE ELSE @, !.mq = @ \/ subscribe]

(* removeCount(n): entering the eviction queue when the count reaches zero *)
\* @type: ({ present: Bool, count: Int, mq: Bool, evq: Bool }, Int) => { present: Bool, count: Int, mq: Bool, evq: Bool };
RemCount(e, n) == [e EXCEPT !.count = @ - n, !.evq = IF e.count - n = 0 /\ n # 0 THEN TRUE ELSE @]
(* timerqueue.Add panics on a duplicate *)
\* @type: ({ present: Bool, count: Int, mq: Bool, evq: Bool }, Int) => Bool;
RemCountSafe(e, n) == ~(e.count - n = 0 /\ n # 0 /\ e.evq)

(* mqUnsubscribe of the current entry: aborted while in use *)
\* @type: ({ present: Bool, count: Int, mq: Bool, evq: Bool }) => { present: Bool, count: Int, mq: Bool, evq: Bool };
EvictRun(e) == IF e.count > 0 THEN e ELSE NoEntry

=============================================================================
