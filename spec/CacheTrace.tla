------------------------------ MODULE CacheTrace ------------------------------
(***************************************************************************)
(* Replay of the notes the gateway takes inside the critical sections of a *)
(* cache entry (tag verif: cacheGet, cacheGetFail, cacheAddSub, cacheUnsub, *)
(* cacheDelete, cacheGetErr, cacheLink, cacheRem, cacheEvict, and the gate  *)
(* note evictPop) against the operators of CacheOps / CacheEntry.tla.       *)
(*                                                                          *)
(* The tracked record of one entry:                                         *)
(*   e     the entry as CacheEntry.tla computes it from the note *kinds*    *)
(*   join  subscribers counted by getSubscription, addSubscriber not yet run *)
(*   subs  registered subscribers per query (the logged set sizes)          *)
(*   reqs  in-flight requests holding the entry                             *)
(*   pend  size of the release announced by cacheUnsub/cacheDelete/cacheGetErr *)
(*         that the next cacheRem performs (0: the next cacheRem ends a request) *)
(*   pop   eviction callbacks taken off the timer queue, not yet run         *)
(* CEStep returns the next record and the set of discrepancies between the  *)
(* logged values and the model; each one is a C09 violation, because the    *)
(* model satisfies (TLC, CacheEntry.cfg) CountIsUses, KeptWhileUsed,        *)
(* IdleIsQueued and Released, and the real entry no longer follows it.      *)
(***************************************************************************)
EXTENDS CacheOps, TLC, Sequences, FiniteSets, FiniteSetsExt

CENew == [e |-> NoEntry, join |-> 0, subs |-> <<>>, reqs |-> 0, pend |-> 0, pop |-> 0]

CESubs(x) == FoldSet(LAMBDA q, acc : acc + x.subs[q], 0, DOMAIN x.subs)
CEUsers(x) == x.join + CESubs(x) + x.reqs

CESetSubs(x, q, n) == [x EXCEPT !.subs = (q :> n) @@ @]

CERes(x, errs) == [x |-> x, errs |-> errs]

(* every rule compares the logged use count with the tracked users and the model entry *)
CECount(x, r, what) ==
    (IF r.count # x.e.count
     THEN {what \o ": use count " \o ToString(r.count) \o ", CacheEntry.tla says " \o ToString(x.e.count)} ELSE {})
    \cup (IF r.count # CEUsers(x)
          THEN {what \o ": use count " \o ToString(r.count) \o " but " \o ToString(CEUsers(x)) \o " users (" \o ToString(x.join) \o " joining, "
                \o ToString(CESubs(x)) \o " subscribed, " \o ToString(x.reqs) \o " requests)"} ELSE {})
    \cup (IF r.count < 0 THEN {what \o ": negative use count"} ELSE {})

CEStep(x, r) ==
    CASE r.kind = "cacheGet" ->
            LET x1 == [x EXCEPT !.e = GetSub(x.e, r.subscribe),
                                !.join = IF r.subscribe THEN @ + 1 ELSE @,
                                !.reqs = IF r.subscribe THEN @ ELSE @ + 1]
            IN CERes(x1, CECount(x1, r, "getSubscription")
                         \cup (IF r.created # ~x.e.present THEN {"getSubscription: entry " \o (IF r.created THEN "created although cached" ELSE "reused although not cached")} ELSE {})
                         \cup (IF r.mqSub # x1.e.mq THEN {"getSubscription: event subscription " \o ToString(r.mqSub) \o ", CacheEntry.tla says " \o ToString(x1.e.mq)} ELSE {}))
      [] r.kind = "cacheGetFail" ->
            \* the MQ subscription failed: the failing call holds the entry until it gives the use back
            LET x1 == [x EXCEPT !.e = [GetSub(x.e, FALSE) EXCEPT !.mq = x.e.mq], !.reqs = @ + 1]
            IN CERes(x1, CECount(x1, r, "getSubscription (event subscription failed)"))
      [] r.kind = "cacheAddSub" ->
            LET x1 == IF r.state = 1   \* stateError: not registered, the use is given back on the spot
                      THEN [x EXCEPT !.join = @ - 1, !.e = [@ EXCEPT !.count = @ - 1]]
                      ELSE CESetSubs([x EXCEPT !.join = @ - 1], r.query, r.subs)
            IN CERes(x1, (IF x.join = 0 THEN {"addSubscriber without a preceding getSubscription"} ELSE {})
                         \cup (IF r.state # 1 /\ r.subs # (IF r.query \in DOMAIN x.subs THEN x.subs[r.query] ELSE 0) + 1
                               THEN {"addSubscriber: " \o ToString(r.subs) \o " subscribers registered, expected one more than before"} ELSE {})
                         \cup (IF ~x.e.mq THEN {"subscriber added without an event subscription"} ELSE {}))
      [] r.kind = "cacheUnsub" ->
            IF r.removed THEN CERes([CESetSubs(x, r.query, r.subs) EXCEPT !.pend = 1], {})
            ELSE CERes(x, {})   \* not registered (released earlier by a delete event or a failed get): nothing to release
      [] r.kind \in {"cacheDelete", "cacheGetErr"} ->
            CERes([CESetSubs(x, r.query, 0) EXCEPT !.pend = r.subs], {})
      [] r.kind = "cacheLink" ->
            \* the subscribers of the un-normalized query now belong to the normalized one
            CERes(CESetSubs(CESetSubs(x, r.query, 0), r.to, r.subs), {})
      [] r.kind = "cacheRem" ->
            LET byReq == x.pend = 0
                x1 == [x EXCEPT !.e = RemCount(x.e, r.num), !.pend = 0, !.reqs = IF byReq THEN @ - r.num ELSE @]
            IN CERes(x1, CECount(x1, r, "removeCount")
                         \cup (IF ~byReq /\ x.pend # r.num THEN {"removeCount(" \o ToString(r.num) \o ") after a release of " \o ToString(x.pend) \o " subscribers"} ELSE {})
                         \cup (IF ~RemCountSafe(x.e, r.num) THEN {"removeCount: entry queued for eviction twice"} ELSE {})
                         \cup (IF x1.reqs < 0 THEN {"removeCount: more requests ended than started"} ELSE {}))
      [] r.kind = "evictPop" ->
            CERes([x EXCEPT !.pop = @ + 1, !.e = [@ EXCEPT !.evq = FALSE]], {})
      [] r.kind = "cacheEvict" ->
            IF r.count = -1 THEN CERes([x EXCEPT !.pop = @ - 1], {})   \* callback of an entry that was already evicted
            ELSE LET e1 == EvictRun(x.e)
                 IN CERes(IF r.done THEN [CENew EXCEPT !.pop = x.pop - 1] ELSE [x EXCEPT !.pop = @ - 1],
                          (IF r.done # ~e1.present THEN {"eviction " \o (IF r.done THEN "done" ELSE "aborted") \o " with use count " \o ToString(r.count) \o ", CacheEntry.tla says count " \o ToString(x.e.count)} ELSE {})
                          \cup (IF r.done /\ CEUsers(x) > 0 THEN {"entry evicted while in use by " \o ToString(CEUsers(x)) \o " users"} ELSE {}))
      [] OTHER -> CERes(x, {})

(* at quiescence: nothing is joining, no request is in flight, and an idle entry waits for eviction *)
CEQuiescent(x) ==
    (IF x.join # 0 \/ x.reqs # 0 THEN {"quiescent with " \o ToString(x.join) \o " joining subscribers and " \o ToString(x.reqs) \o " requests holding the entry"} ELSE {})
    \cup (IF x.e.present /\ x.e.count = 0 /\ ~x.e.evq /\ x.pop = 0 THEN {"idle entry is not queued for eviction"} ELSE {})
    \cup (IF x.e.present /\ x.e.count # CEUsers(x) THEN {"use count " \o ToString(x.e.count) \o " with " \o ToString(CEUsers(x)) \o " users: the entry can never be evicted"} ELSE {})

CENotes == {"cacheGet", "cacheGetFail", "cacheAddSub", "cacheUnsub", "cacheDelete", "cacheGetErr", "cacheLink", "cacheRem", "cacheEvict", "evictPop"}
=============================================================================
