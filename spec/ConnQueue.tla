------------------------------ MODULE ConnQueue ------------------------------
(***************************************************************************)
(* The work queue of one client connection (server/wsConn.go: Enqueue,     *)
(* enqueue, outputWorker, Dispose / dispose).  Every closure that touches  *)
(* the connection's state runs on its single worker goroutine; the reader, *)
(* cache callbacks and timers only enqueue.  Disposing is itself a queued  *)
(* closure: it sets c.disposing and closes the wake-up channel c.work      *)
(* under the mutex, after which Enqueue refuses; what was accepted before  *)
(* and sits behind the dispose closure is still run by the worker before   *)
(* it leaves (those closures give cache uses back).                         *)
(*                                                                          *)
(*   queue      c.queue                                                     *)
(*   disposing  c.disposing                                                  *)
(*   work       tokens in c.work (capacity 1); closed: the channel is closed *)
(*   w          worker: pc recv | loop | done, idx                           *)
(*   ran        items executed, in order;  refused  items Enqueue rejected   *)
(*                                                                          *)
(*   FIFO           accepted items run in the order they were accepted      *)
(*   OneToken       never more than one wake-up token: the send under the   *)
(*                  mutex cannot block                                      *)
(*   NoSendClosed   nothing is sent on the closed channel (crash)           *)
(*   RefusedLate    an item is refused only after the dispose closure ran   *)
(*   DoneComplete   when the worker has left, every accepted item has run   *)
(*                  (nothing is left behind: C11) and nothing runs after    *)
(*   AllRun         every accepted item eventually runs                     *)
(*   Leaves         once a dispose closure is accepted the worker leaves    *)
(*                  (Service.Stop waits for it: C20)                        *)
(***************************************************************************)
EXTENDS Integers, Sequences, FiniteSets

CONSTANTS MaxWork,     \* items 1..MaxWork
          SkipBehind   \* FALSE: as implemented; TRUE: the worker drops what is queued behind the dispose closure
                       \* (negative check: DoneComplete and AllRun must fail)

VARIABLES queue, disposing, work, closed, w, next, ran, refused, kind, crash, afterDone
vars == <<queue, disposing, work, closed, w, next, ran, refused, kind, crash, afterDone>>

Init == queue = <<>> /\ disposing = FALSE /\ work = 0 /\ closed = FALSE /\ w = [pc |-> "recv", idx |-> 0]
        /\ next = 1 /\ ran = <<>> /\ refused = {} /\ kind = <<>> /\ crash = FALSE /\ afterDone = FALSE

(* Enqueue(f) from any goroutine, under the mutex *)
Enqueue(k) ==
    /\ next <= MaxWork
    /\ kind' = Append(kind, k) /\ next' = next + 1
    /\ IF disposing
       THEN refused' = refused \cup {next} /\ UNCHANGED <<queue, work, crash>>
       ELSE /\ queue' = Append(queue, next)
            /\ IF Len(queue) = 0
               THEN work' = work + 1 /\ crash' = (crash \/ closed)
               ELSE UNCHANGED <<work, crash>>
            /\ UNCHANGED refused
    /\ UNCHANGED <<disposing, closed, w, ran, afterDone>>

(* for range c.work *)
WRecv ==
    /\ w.pc = "recv"
    /\ \/ work > 0 /\ work' = work - 1 /\ w' = [pc |-> "loop", idx |-> 0]
       \/ work = 0 /\ closed /\ w' = [pc |-> "done", idx |-> 0] /\ UNCHANGED work
    /\ UNCHANGED <<queue, disposing, closed, next, ran, refused, kind, crash, afterDone>>

(* f = c.queue[idx]; unlock; f(); idx++ - the dispose closure sets disposing and closes c.work under the mutex *)
WItem ==
    /\ w.pc = "loop" /\ Len(queue) > w.idx
    /\ LET it == queue[w.idx + 1]
           disp == kind[it] = "dispose" /\ ~disposing
       IN /\ ran' = Append(ran, it)
          /\ disposing' = (disposing \/ disp)
          /\ closed' = (closed \/ disp)
          /\ IF SkipBehind /\ disp
             THEN w' = [pc |-> "loop", idx |-> Len(queue)]
             ELSE w' = [w EXCEPT !.idx = @ + 1]
    /\ UNCHANGED <<queue, work, next, refused, kind, crash, afterDone>>

(* the queue is used up: c.queue = c.queue[0:0] under the mutex, back to the channel *)
WEnd ==
    /\ w.pc = "loop" /\ Len(queue) <= w.idx
    /\ queue' = <<>> /\ w' = [pc |-> "recv", idx |-> 0]
    /\ UNCHANGED <<disposing, work, closed, next, ran, refused, kind, crash, afterDone>>

Next == (\E k \in {"work", "dispose"} : Enqueue(k)) \/ WRecv \/ WItem \/ WEnd
Spec == Init /\ [][Next]_vars /\ WF_vars(WRecv) /\ WF_vars(WItem) /\ WF_vars(WEnd)

-----------------------------------------------------------------------------
Accepted == {i \in 1..(next - 1) : i \notin refused}
Range(s) == {s[i] : i \in DOMAIN s}
FIFO == \A i, j \in DOMAIN ran : i < j => ran[i] < ran[j]
OneToken == work <= 1
NoSendClosed == ~crash
RefusedLate == refused # {} => \E i \in Range(ran) : kind[i] = "dispose"
DoneComplete == w.pc = "done" => (Range(ran) = Accepted /\ queue = <<>>)
OnlyDisposedLeaves == w.pc = "done" => disposing
AllRun == \A i \in 1..MaxWork : (i \in Accepted) ~> (i \in Range(ran))
Leaves == (\E i \in Accepted : kind[i] = "dispose") ~> (w.pc = "done")
=============================================================================
