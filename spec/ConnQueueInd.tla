---------------------------- MODULE ConnQueueInd ----------------------------
(***************************************************************************)
(* The counting abstraction of ConnQueue.tla (the one ConnQueueTrace.tla    *)
(* replays: queue length, closures accepted / run instead of the queue's    *)
(* contents) with an inductive invariant for Apalache: the safety part      *)
(* holds for ANY number of closures, not only for the MaxWork that TLC      *)
(* enumerates.  Init => IndInv, IndInv /\ Next => IndInv', IndInv => Safety.*)
(***************************************************************************)
EXTENDS Integers, Apalache

VARIABLES
    \* @type: Int;
    ql,         \* len(c.queue)
    \* @type: Bool;
    disposing,
    \* @type: Bool;
    closed,     \* c.work is closed
    \* @type: Int;
    tokens,     \* wake-up tokens in c.work
    \* @type: Str;
    pc,         \* worker: recv | loop | done
    \* @type: Int;
    idx,
    \* @type: Int;
    acc,        \* closures accepted
    \* @type: Int;
    ran,        \* closures run
    \* @type: Int;
    refused,
    \* @type: Bool;
    crash       \* a token was sent on the closed channel

vars == <<ql, disposing, closed, tokens, pc, idx, acc, ran, refused, crash>>

ConstInit == TRUE

Init == ql = 0 /\ disposing = FALSE /\ closed = FALSE /\ tokens = 0 /\ pc = "recv" /\ idx = 0 /\ acc = 0 /\ ran = 0 /\ refused = 0 /\ crash = FALSE

Enqueue ==
    IF disposing
    THEN refused' = refused + 1 /\ UNCHANGED <<ql, disposing, closed, tokens, pc, idx, acc, ran, crash>>
    ELSE /\ ql' = ql + 1 /\ acc' = acc + 1
         /\ tokens' = IF ql = 0 THEN tokens + 1 ELSE tokens
         /\ crash' = (crash \/ (ql = 0 /\ closed))
         /\ UNCHANGED <<disposing, closed, pc, idx, ran, refused>>

WRecv ==
    /\ pc = "recv"
    /\ \/ tokens > 0 /\ tokens' = tokens - 1 /\ pc' = "loop" /\ idx' = 0
       \/ tokens = 0 /\ closed /\ pc' = "done" /\ UNCHANGED <<tokens, idx>>
    /\ UNCHANGED <<ql, disposing, closed, acc, ran, refused, crash>>

(* the closure run may be the one that disposes *)
WItem(disp) ==
    /\ pc = "loop" /\ ql > idx
    /\ idx' = idx + 1 /\ ran' = ran + 1
    /\ disposing' = (disposing \/ disp) /\ closed' = (closed \/ disp)
    /\ UNCHANGED <<ql, tokens, pc, acc, refused, crash>>

WEnd ==
    /\ pc = "loop" /\ ql <= idx
    /\ ql' = 0 /\ pc' = "recv" /\ idx' = 0
    /\ UNCHANGED <<disposing, closed, tokens, acc, ran, refused, crash>>

Next == Enqueue \/ WRecv \/ WItem(TRUE) \/ WItem(FALSE) \/ WEnd

IndInv ==
    /\ ql >= 0 /\ idx >= 0 /\ acc >= 0 /\ ran >= 0 /\ refused >= 0
    /\ tokens \in {0, 1}
    /\ pc \in {"recv", "loop", "done"}
    /\ ~crash
    /\ (closed <=> disposing)
    /\ (tokens = 1 => (pc = "recv" /\ ql > 0))
    /\ ((pc = "recv" /\ tokens = 0) => ql = 0)
    /\ (pc = "loop" => (ql > 0 /\ idx <= ql))
    /\ (pc # "loop" => idx = 0)
    /\ (pc = "done" => (disposing /\ ql = 0 /\ tokens = 0))
    /\ acc = ran + (ql - idx)
    /\ (refused > 0 => disposing)

IndInit ==
    /\ ql = Gen(1) /\ idx = Gen(1) /\ acc = Gen(1) /\ ran = Gen(1) /\ refused = Gen(1) /\ tokens = Gen(1)
    /\ disposing \in BOOLEAN /\ closed \in BOOLEAN /\ crash \in BOOLEAN
    /\ pc \in {"recv", "loop", "done"}
    /\ IndInv

OneToken == tokens <= 1
NoSendClosed == ~crash
RefusedLate == refused > 0 => disposing
DoneComplete == pc = "done" => (ran = acc /\ ql = 0)
OnlyDisposedLeaves == pc = "done" => disposing
Safety == OneToken /\ NoSendClosed /\ RefusedLate /\ DoneComplete /\ OnlyDisposedLeaves
=============================================================================
