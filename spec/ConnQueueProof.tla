--------------------------- MODULE ConnQueueProof ---------------------------
(***************************************************************************)
(* TLAPS proof of the safety part of the connection work queue, for any    *)
(* number of closures: the counting abstraction of ConnQueue.tla (the      *)
(* transitions ConnQueueTrace.tla replays, those of ConnQueueInd.tla) with *)
(* its inductive invariant.                                                *)
(*   Safety: never a second wake-up token, nothing sent on the closed      *)
(*   channel, refusals only while disposing, and when the worker has left  *)
(*   every accepted closure has run and the connection was disposed.       *)
(***************************************************************************)
EXTENDS Integers, TLAPS

VARIABLES ql, disposing, closed, tokens, pc, idx, acc, ran, refused, crash
vars == <<ql, disposing, closed, tokens, pc, idx, acc, ran, refused, crash>>

Init == ql = 0 /\ disposing = FALSE /\ closed = FALSE /\ tokens = 0 /\ pc = "recv" /\ idx = 0 /\ acc = 0 /\ ran = 0 /\ refused = 0 /\ crash = FALSE

Enqueue ==
    IF disposing
    THEN refused' = refused + 1 /\ UNCHANGED <<ql, disposing, closed, tokens, pc, idx, acc, ran, crash>>
    ELSE /\ ql' = ql + 1 /\ acc' = acc + 1
         /\ tokens' = IF ql = 0 THEN tokens + 1 ELSE tokens
         /\ crash' = (crash \/ (ql = 0 /\ closed))
         /\ UNCHANGED <<disposing, closed, pc, idx, ran, refused>>

WRecv ==
    /\ pc = "recv"
    /\ \/ tokens > 0 /\ tokens' = tokens - 1 /\ pc' = "loop" /\ idx' = 0
       \/ tokens = 0 /\ closed /\ pc' = "done" /\ UNCHANGED <<tokens, idx>>
    /\ UNCHANGED <<ql, disposing, closed, acc, ran, refused, crash>>

WItem(disp) ==
    /\ pc = "loop" /\ ql > idx
    /\ idx' = idx + 1 /\ ran' = ran + 1
    /\ disposing' = (disposing \/ disp) /\ closed' = (closed \/ disp)
    /\ UNCHANGED <<ql, tokens, pc, acc, refused, crash>>

WEnd ==
    /\ pc = "loop" /\ ql <= idx
    /\ ql' = 0 /\ pc' = "recv" /\ idx' = 0
    /\ UNCHANGED <<disposing, closed, tokens, acc, ran, refused, crash>>

Next == Enqueue \/ WRecv \/ WItem(TRUE) \/ WItem(FALSE) \/ WEnd
Spec == Init /\ [][Next]_vars

Inv ==
    /\ ql \in Nat /\ idx \in Nat /\ acc \in Nat /\ ran \in Nat /\ refused \in Nat
    /\ tokens \in {0, 1}
    /\ pc \in {"recv", "loop", "done"}
    /\ disposing \in BOOLEAN /\ closed \in BOOLEAN
    /\ crash = FALSE
    /\ (closed <=> disposing)
    /\ (tokens = 1 => (pc = "recv" /\ ql > 0))
    /\ ((pc = "recv" /\ tokens = 0) => ql = 0)
    /\ (pc = "loop" => (ql > 0 /\ idx <= ql))
    /\ (pc # "loop" => idx = 0)
    /\ (pc = "done" => (disposing /\ ql = 0 /\ tokens = 0))
    /\ acc = ran + (ql - idx)
    /\ (refused > 0 => disposing)

Safety ==
    /\ tokens <= 1
    /\ crash = FALSE
    /\ (refused > 0 => disposing)
    /\ (pc = "done" => (ran = acc /\ ql = 0 /\ disposing))

THEOREM Safe == Spec => []Safety
<1>1. Init => Inv
  BY DEF Init, Inv
<1>2. Inv /\ [Next]_vars => Inv'
  <2> SUFFICES ASSUME Inv, [Next]_vars PROVE Inv'
    OBVIOUS
  <2>1. CASE Enqueue
    BY <2>1 DEF Enqueue, Inv
  <2>2. CASE WRecv
    BY <2>2 DEF WRecv, Inv
  <2>3. CASE WItem(TRUE)
    BY <2>3 DEF WItem, Inv
  <2>4. CASE WItem(FALSE)
    BY <2>4 DEF WItem, Inv
  <2>5. CASE WEnd
    BY <2>5 DEF WEnd, Inv
  <2>6. CASE UNCHANGED vars
    BY <2>6 DEF vars, Inv
  <2> QED
    BY <2>1, <2>2, <2>3, <2>4, <2>5, <2>6 DEF Next
<1>3. Inv => Safety
  BY DEF Inv, Safety
<1> QED
  BY <1>1, <1>2, <1>3, PTL DEF Spec
=============================================================================
