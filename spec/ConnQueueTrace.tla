---------------------------- MODULE ConnQueueTrace ----------------------------
(***************************************************************************)
(* Replay of the notes taken in the work queue of a client connection       *)
(* (tag verif: cqEnq, cqRefuse, cqRun, cqReset, cqDispose, cqDone - all but  *)
(* cqDone under the connection's mutex) through the transitions of           *)
(* ConnQueue.tla.  Tracked per connection: ql (queue length), disposing,     *)
(* tokens (wake-up tokens in c.work), pc / idx of the worker, acc (closures  *)
(* accepted) and ran (closures run).                                         *)
(* CQTStep returns the next record and the discrepancies, tagged C11 (a      *)
(* closure accepted but not run, refused while the connection is live, the   *)
(* worker leaving early or not at all) or C15 (bookkeeping that makes the    *)
(* worker stall or the process crash: a lost or second wake-up token).       *)
(***************************************************************************)
EXTENDS Integers, Sequences, TLC

CQTNew == [ql |-> 0, disposing |-> FALSE, tokens |-> 0, pc |-> "recv", idx |-> 0, acc |-> 0, ran |-> 0]

CQTRes(x, errs) == [x |-> x, errs |-> errs]
CQTErr(p, m) == [p |-> p, m |-> m]

(* the worker takes a token when it is seen working while the model has it waiting on the channel *)
CQTWake(x) == IF x.pc = "recv" THEN [x EXCEPT !.pc = "loop", !.idx = 0, !.tokens = @ - 1] ELSE x
CQTWakeErr(x) == IF x.pc = "recv" /\ x.tokens = 0 THEN {CQTErr("C15", "the worker runs although no wake-up token was sent")}
                 ELSE IF x.pc = "done" THEN {CQTErr("C11", "the worker runs after it has left")} ELSE {}

CQTStep(x, r) ==
    CASE r.kind = "cqEnq" ->
            LET x1 == [x EXCEPT !.ql = @ + 1, !.acc = @ + 1, !.tokens = IF x.ql = 0 THEN @ + 1 ELSE @]
            IN CQTRes(x1, (IF r.count # x.ql THEN {CQTErr("C15", "Enqueue finds " \o ToString(r.count) \o " closures queued, ConnQueue.tla says " \o ToString(x.ql))} ELSE {})
                          \cup (IF x.disposing THEN {CQTErr("C11", "a closure is accepted although the connection is disposing")} ELSE {})
                          \cup (IF x1.tokens > 1 THEN {CQTErr("C15", "a second wake-up token is sent (the send under the mutex would block)")} ELSE {}))
      [] r.kind = "cqRefuse" ->
            CQTRes(x, IF ~x.disposing THEN {CQTErr("C11", "Enqueue refuses a closure although the connection is not disposing")} ELSE {})
      [] r.kind = "cqRun" ->
            LET x0 == CQTWake(x)
            IN CQTRes([x0 EXCEPT !.idx = @ + 1, !.ran = @ + 1],
                      CQTWakeErr(x)
                      \cup (IF r.idx # x0.idx THEN {CQTErr("C11", "the worker runs closure " \o ToString(r.idx) \o ", ConnQueue.tla says " \o ToString(x0.idx))} ELSE {})
                      \cup (IF r.len # x0.ql THEN {CQTErr("C15", "the worker sees " \o ToString(r.len) \o " closures queued, ConnQueue.tla says " \o ToString(x0.ql))} ELSE {}))
      [] r.kind = "cqReset" ->
            LET x0 == CQTWake(x)
            IN CQTRes([x0 EXCEPT !.ql = 0, !.pc = "recv", !.idx = 0],
                      CQTWakeErr(x)
                      \cup (IF r.idx # x0.ql \/ r.len # x0.ql
                            THEN {CQTErr("C11", "the queue is emptied after " \o ToString(r.idx) \o " of " \o ToString(r.len) \o " closures were run, ConnQueue.tla holds " \o ToString(x0.ql))} ELSE {}))
      [] r.kind = "cqDispose" ->
            CQTRes([x EXCEPT !.disposing = TRUE], IF x.disposing THEN {CQTErr("C11", "the connection is disposed twice")} ELSE {})
      [] r.kind = "cqDone" ->
            CQTRes([x EXCEPT !.pc = "done"],
                   (IF ~x.disposing THEN {CQTErr("C11", "the worker leaves although the connection is not disposing")} ELSE {})
                   \cup (IF x.pc # "recv" \/ x.ql # 0 \/ r.len # 0 THEN {CQTErr("C11", "the worker leaves with " \o ToString(x.ql) \o " closures queued")} ELSE {})
                   \cup (IF x.ran # x.acc THEN {CQTErr("C11", "the worker leaves after running " \o ToString(x.ran) \o " of " \o ToString(x.acc) \o " accepted closures")} ELSE {}))
      [] OTHER -> CQTRes(x, {})

(* when nothing is in flight: every accepted closure has run, and a disposed connection's worker has left *)
CQTQuiescent(x) ==
    (IF x.ran # x.acc THEN {CQTErr("C11", ToString(x.acc - x.ran) \o " accepted closures were never run")} ELSE {})
    \cup (IF x.disposing /\ x.pc # "done" THEN {CQTErr("C11", "the worker of the disposed connection has not left")} ELSE {})
    \cup (IF x.pc = "recv" /\ x.tokens # 0 /\ ~x.disposing THEN {CQTErr("C15", "a wake-up token is left although the worker is idle")} ELSE {})

CQTNotes == {"cqEnq", "cqRefuse", "cqRun", "cqReset", "cqDispose", "cqDone"}
=============================================================================
