----------------------------- MODULE DirectCount -----------------------------
(***************************************************************************)
(* The direct-subscription counter of one resource on one connection       *)
(* (wsConn.go: subscribe / addCount, SubscribeResource, GetResource,       *)
(* UnsubscribeByRID, removeCount; subscription.go: unsubscribeDirect).     *)
(*                                                                         *)
(* The gateway counts a request at the moment it is received (direct++),   *)
(* before its outcome is known, and gives the count back if it fails or is *)
(* a get.  The client counts a subscription when the success response      *)
(* arrives.  C08 is stated on the client's count (confirmed):              *)
(*   Exact      with nothing in flight, direct = confirmed                 *)
(*   UnsubRule  unsubscribe(n) succeeds iff 1 <= n <= confirmed            *)
(*   Limit      direct never exceeds the limit, a request beyond it fails   *)
(*              and leaves the count unchanged                             *)
(* With Repaired = FALSE the model is the code: UnsubscribeByRID compares   *)
(* with direct, which includes the in-flight requests - TLC finds UnsubRule *)
(* violated, which is finding KF-H (C08 part) as a named deviation.         *)
(* With Repaired = TRUE in-flight requests are counted apart and all three  *)
(* properties hold: what a repair has to achieve.                           *)
(***************************************************************************)
EXTENDS Integers, FiniteSets

CONSTANTS Limit,      \* SubscriptionCountLimit (256 in the code)
          MaxReq,     \* client requests
          Repaired

VARIABLES direct,     \* gateway: direct count including in-flight requests
          inflight,   \* requests received whose outcome is not known: id -> "sub" | "get"
          confirmed,  \* client: successful subscribes minus unsubscribed
          next,       \* next request id
          lastUnsub   \* [n, ok, confirmedBefore] of the last unsubscribe, for UnsubRule

vars == <<direct, inflight, confirmed, next, lastUnsub>>

Init == direct = 0 /\ inflight = <<>> /\ confirmed = 0 /\ next = 1 /\ lastUnsub = [n |-> 0, ok |-> FALSE, before |-> 0]

Put(f, k, v) == [x \in DOMAIN f \cup {k} |-> IF x = k THEN v ELSE f[x]]
Del(f, k) == [x \in DOMAIN f \ {k} |-> f[x]]

(* subscribe / get received: counted at once unless the limit is reached *)
Receive(kind) ==
    /\ next <= MaxReq
    /\ next' = next + 1
    /\ IF direct >= Limit
       THEN UNCHANGED <<direct, inflight>>            \* system.subscriptionLimitExceeded
       ELSE direct' = direct + 1 /\ inflight' = Put(inflight, next, kind)
    /\ UNCHANGED <<confirmed, lastUnsub>>

(* the request completes: a successful subscribe keeps its count, everything else gives it back *)
Complete(id, ok) ==
    /\ id \in DOMAIN inflight
    /\ inflight' = Del(inflight, id)
    /\ IF inflight[id] = "sub" /\ ok
       THEN confirmed' = confirmed + 1 /\ UNCHANGED direct
       ELSE direct' = direct - 1 /\ UNCHANGED confirmed
    /\ UNCHANGED <<next, lastUnsub>>

(* unsubscribe with a count, answered at once *)
Unsubscribe(n) ==
    /\ LET have == IF Repaired THEN direct - Cardinality(DOMAIN inflight) ELSE direct
           ok == n >= 1 /\ have >= n
       IN /\ lastUnsub' = [n |-> n, ok |-> ok, before |-> confirmed]
          /\ IF ok THEN direct' = direct - n /\ confirmed' = IF confirmed >= n THEN confirmed - n ELSE 0
             ELSE UNCHANGED <<direct, confirmed>>
    /\ UNCHANGED <<inflight, next>>

Next == (\E k \in {"sub", "get"} : Receive(k)) \/ (\E id \in DOMAIN inflight, ok \in BOOLEAN : Complete(id, ok))
        \/ (\E n \in 0..Limit + 1 : Unsubscribe(n))

Spec == Init /\ [][Next]_vars

-----------------------------------------------------------------------------
Exact == DOMAIN inflight = {} => direct = confirmed
UnsubRule == lastUnsub.ok <=> (lastUnsub.n >= 1 /\ lastUnsub.n <= lastUnsub.before)
LimitHeld == direct <= Limit /\ direct >= 0 /\ confirmed >= 0
=============================================================================
