------------------------------ MODULE Lifecycle ------------------------------
(***************************************************************************)
(* Service.Start / Service.Stop (server/service.go) with concurrent        *)
(* callers: the embedding program calling Start and Stop, and the MQ        *)
(* client's closed handler calling Stop(err) from its own goroutine.        *)
(*                                                                          *)
(*   stop      the stop channel exists (s.stop # nil): the service runs     *)
(*   stopping  a Stop call is between its two critical sections             *)
(*   chan      values delivered on the stop channel of the current run      *)
(*   accept    the HTTP / WebSocket listener accepts clients                *)
(*   conns     open client connections                                      *)
(* Stop's middle part (stopWSHandler ... stopMQClient) runs without the     *)
(* service mutex; it is one step per component here.                        *)
(*                                                                          *)
(*   OneCause      at most one value per run on the stop channel, and it is *)
(*                 the cause of the Stop call that won                      *)
(*   ClosedAfter   when a run has ended no client connection is open and    *)
(*                 the listener does not accept                             *)
(*   NoAcceptWhileStopping  nothing is accepted once a Stop has begun       *)
(*   Terminates    a Stop that won eventually completes                     *)
(***************************************************************************)
EXTENDS Integers, Sequences, FiniteSets

CONSTANTS Callers,     \* Stop callers: e.g. {"user", "mq"}; the cause is the caller's name
          MaxRuns,     \* Start calls that may succeed
          MaxConns

VARIABLES stop, stopping, chan, accept, conns, pc, winner, runs, mqUp

vars == <<stop, stopping, chan, accept, conns, pc, winner, runs, mqUp>>

Init == stop = FALSE /\ stopping = FALSE /\ chan = <<>> /\ accept = FALSE /\ conns = 0
        /\ pc = [c \in Callers |-> "idle"] /\ winner = "" /\ runs = 0 /\ mqUp = FALSE

(* Start: under the mutex; a no-op while running, refused while stopping *)
Start ==
    /\ ~stop /\ ~stopping /\ runs < MaxRuns
    /\ stop' = TRUE /\ chan' = <<>> /\ accept' = TRUE /\ mqUp' = TRUE /\ runs' = runs + 1 /\ winner' = ""
    /\ UNCHANGED <<stopping, conns, pc>>

Connect == accept /\ conns < MaxConns /\ conns' = conns + 1
           /\ UNCHANGED <<stop, stopping, chan, accept, pc, winner, runs, mqUp>>
Disconnect == conns > 0 /\ conns' = conns - 1
              /\ UNCHANGED <<stop, stopping, chan, accept, pc, winner, runs, mqUp>>

(* Stop, first critical section: only one caller passes *)
StopEnter(c) ==
    /\ pc[c] = "idle"
    /\ (c = "mq" => mqUp)                 \* the closed handler fires only for a connection that was up
    /\ IF ~stop \/ stopping
       THEN UNCHANGED <<stopping, pc, winner>>     \* returns at once
       ELSE stopping' = TRUE /\ pc' = [pc EXCEPT ![c] = "ws"] /\ winner' = c
    /\ UNCHANGED <<stop, chan, accept, conns, runs, mqUp>>

(* stopWSHandler: no new connections, every open one is closed (bounded wait) *)
StopWS(c) == pc[c] = "ws" /\ accept' = FALSE /\ conns' = 0 /\ pc' = [pc EXCEPT ![c] = "mq"]
             /\ UNCHANGED <<stop, stopping, chan, winner, runs, mqUp>>

(* stopHTTPServer / stopMQClient *)
StopMQ(c) == pc[c] = "mq" /\ mqUp' = FALSE /\ pc' = [pc EXCEPT ![c] = "exit"]
             /\ UNCHANGED <<stop, stopping, chan, accept, conns, winner, runs>>

(* second critical section: the cause is sent, the channel closed, the service can start again *)
StopExit(c) ==
    /\ pc[c] = "exit"
    /\ chan' = Append(chan, c) /\ stop' = FALSE /\ stopping' = FALSE /\ pc' = [pc EXCEPT ![c] = "idle"]
    /\ UNCHANGED <<accept, conns, winner, runs, mqUp>>

Next == Start \/ Connect \/ Disconnect \/ \E c \in Callers : StopEnter(c) \/ StopWS(c) \/ StopMQ(c) \/ StopExit(c)

Spec == Init /\ [][Next]_vars /\ \A c \in Callers : WF_vars(StopWS(c)) /\ WF_vars(StopMQ(c)) /\ WF_vars(StopExit(c))

-----------------------------------------------------------------------------
OneCause == Len(chan) <= 1 /\ (Len(chan) = 1 => chan[1] = winner)
ClosedAfter == ~stop => (conns = 0 /\ ~accept)
NoAcceptWhileStopping == (\E c \in Callers : pc[c] \in {"mq", "exit"}) => (~accept /\ conns = 0)
OneStopper == Cardinality({c \in Callers : pc[c] # "idle"}) <= 1
Terminates == \A c \in Callers : (pc[c] # "idle") ~> (pc[c] = "idle")
=============================================================================
