------------------------------ MODULE Lifecycle ------------------------------
(***************************************************************************)
(* Service.Start / Service.Stop (server/service.go) with concurrent        *)
(* callers: the embedding program calling Start and Stop, and the MQ        *)
(* client's closed handler calling Stop(err) from its own goroutine.        *)
(*                                                                          *)
(*   stop      the stop channel exists (s.stop # nil): the service runs     *)
(*   stopping  a Stop call is between its two critical sections             *)
(*   chan      values delivered on the stop channel of the current run      *)
(*   accept    the HTTP / WebSocket listener accepts clients                *)
(*   conns     open client connections                                      *)
(*   buf       messages the messaging client has received but not yet       *)
(*             handed to the cache (its listener's channel)                 *)
(*   inCh      the cache's work channel: "open" / "closed" (Cache.Stop)     *)
(*   crash     a message was handed to a closed work channel (a send on a   *)
(*             closed Go channel: the process dies)                         *)
(* Stop's middle part (stopWSHandler ... stopMQClient) runs without the     *)
(* service mutex; it is one step per component here, except stopMQClient:   *)
(* the client's Close cuts the connection, waits until its listener has     *)
(* handed over everything still buffered, and only then are the cache       *)
(* workers stopped.  CloseFirst = FALSE swaps that order (negative check).  *)
(*                                                                          *)
(*   OneCause      at most one value per run on the stop channel, and it is *)
(*                 the cause of the Stop call that won                      *)
(*   ClosedAfter   when a run has ended no client connection is open and    *)
(*                 the listener does not accept                             *)
(*   NoAcceptWhileStopping  nothing is accepted once a Stop has begun       *)
(*   Terminates    a Stop that won eventually completes                     *)
(*   NoCrash       nothing is ever handed to a closed work channel          *)
(***************************************************************************)
EXTENDS Integers, Sequences, FiniteSets

CONSTANTS Callers,     \* Stop callers: e.g. {"user", "mq"}; the cause is the caller's name
          MaxRuns,     \* Start calls that may succeed
          MaxConns,
          MaxBuf,      \* messages the client may hold
          CloseFirst   \* TRUE: as implemented (client closed and drained before the cache stops)

VARIABLES stop, stopping, chan, accept, conns, pc, winner, runs, mqUp, buf, inCh, crash

vars == <<stop, stopping, chan, accept, conns, pc, winner, runs, mqUp, buf, inCh, crash>>
mqv == <<buf, inCh, crash>>

Init == stop = FALSE /\ stopping = FALSE /\ chan = <<>> /\ accept = FALSE /\ conns = 0
        /\ pc = [c \in Callers |-> "idle"] /\ winner = "" /\ runs = 0 /\ mqUp = FALSE
        /\ buf = 0 /\ inCh = "closed" /\ crash = FALSE

(* Start: under the mutex; a no-op while running, refused while stopping *)
Start ==
    /\ ~stop /\ ~stopping /\ runs < MaxRuns
    /\ stop' = TRUE /\ chan' = <<>> /\ accept' = TRUE /\ mqUp' = TRUE /\ runs' = runs + 1 /\ winner' = ""
    /\ buf' = 0 /\ inCh' = "open"
    /\ UNCHANGED <<stopping, conns, pc, crash>>

Connect == accept /\ conns < MaxConns /\ conns' = conns + 1
           /\ UNCHANGED <<stop, stopping, chan, accept, pc, winner, runs, mqUp, mqv>>
Disconnect == conns > 0 /\ conns' = conns - 1
              /\ UNCHANGED <<stop, stopping, chan, accept, pc, winner, runs, mqUp, mqv>>

(* the messaging client receives a message (event or response) while its connection is up ... *)
MQReceive == mqUp /\ buf < MaxBuf /\ buf' = buf + 1
             /\ UNCHANGED <<stop, stopping, chan, accept, conns, pc, winner, runs, mqUp, inCh, crash>>
(* ... and its listener hands it to the cache: EventSubscription.Enqueue sends on the work channel *)
MQDeliver == buf > 0 /\ buf' = buf - 1 /\ crash' = (crash \/ inCh = "closed")
             /\ UNCHANGED <<stop, stopping, chan, accept, conns, pc, winner, runs, mqUp, inCh>>

(* Stop, first critical section: only one caller passes *)
StopEnter(c) ==
    /\ pc[c] = "idle"
    /\ (c = "mq" => mqUp)                 \* the closed handler fires only for a connection that was up
    /\ IF ~stop \/ stopping
       THEN UNCHANGED <<stopping, pc, winner>>     \* returns at once
       ELSE stopping' = TRUE /\ pc' = [pc EXCEPT ![c] = "ws"] /\ winner' = c
    /\ UNCHANGED <<stop, chan, accept, conns, runs, mqUp, mqv>>

(* stopWSHandler: no new connections, every open one is closed (bounded wait) *)
StopWS(c) == pc[c] = "ws" /\ accept' = FALSE /\ conns' = 0 /\ pc' = [pc EXCEPT ![c] = IF CloseFirst THEN "mq" ELSE "cache"]
             /\ UNCHANGED <<stop, stopping, chan, winner, runs, mqUp, mqv>>

(* stopHTTPServer / stopMQClient: Close cuts the connection (nothing more is received) ... *)
MQCloseBegin(c) == pc[c] = "mq" /\ mqUp' = FALSE /\ pc' = [pc EXCEPT ![c] = "drain"]
                   /\ UNCHANGED <<stop, stopping, chan, accept, conns, winner, runs, mqv>>
(* ... and returns when the listener has handed over what was buffered *)
MQCloseDone(c) == pc[c] = "drain" /\ buf = 0 /\ pc' = [pc EXCEPT ![c] = IF CloseFirst THEN "cache" ELSE "exit"]
                  /\ UNCHANGED <<stop, stopping, chan, accept, conns, winner, runs, mqUp, mqv>>
(* Cache.Stop closes the work channel *)
CacheStop(c) == pc[c] = "cache" /\ inCh' = "closed" /\ pc' = [pc EXCEPT ![c] = IF CloseFirst THEN "exit" ELSE "mq"]
                /\ UNCHANGED <<stop, stopping, chan, accept, conns, winner, runs, mqUp, buf, crash>>

(* second critical section: the cause is sent, the channel closed, the service can start again *)
StopExit(c) ==
    /\ pc[c] = "exit"
    /\ chan' = Append(chan, c) /\ stop' = FALSE /\ stopping' = FALSE /\ pc' = [pc EXCEPT ![c] = "idle"]
    /\ UNCHANGED <<accept, conns, winner, runs, mqUp, mqv>>

Next == Start \/ Connect \/ Disconnect \/ MQReceive \/ MQDeliver
        \/ \E c \in Callers : StopEnter(c) \/ StopWS(c) \/ MQCloseBegin(c) \/ MQCloseDone(c) \/ CacheStop(c) \/ StopExit(c)

Spec == Init /\ [][Next]_vars /\ WF_vars(MQDeliver)
        /\ \A c \in Callers : WF_vars(StopWS(c)) /\ WF_vars(MQCloseBegin(c)) /\ WF_vars(MQCloseDone(c)) /\ WF_vars(CacheStop(c)) /\ WF_vars(StopExit(c))

-----------------------------------------------------------------------------
OneCause == Len(chan) <= 1 /\ (Len(chan) = 1 => chan[1] = winner)
ClosedAfter == ~stop => (conns = 0 /\ ~accept)
NoAcceptWhileStopping == (\E c \in Callers : pc[c] \in {"mq", "drain", "cache", "exit"}) => (~accept /\ conns = 0)
NoCrash == ~crash
(* when a run has ended the client holds nothing and the work channel is closed: nothing is served from the cache *)
QuietAfter == ~stop => (buf = 0 /\ inCh = "closed")
OneStopper == Cardinality({c \in Callers : pc[c] # "idle"}) <= 1
Terminates == \A c \in Callers : (pc[c] # "idle") ~> (pc[c] = "idle")
=============================================================================
