----------------------------- MODULE NatsAdapter -----------------------------
(***************************************************************************)
(* One request sent through the NATS adapter (nats/nats.go).  The pending  *)
(* entry in mqReqs is removed under the client lock either by the listener *)
(* (first message that is not a pre-response) or by a timeout callback;    *)
(* whoever removes it invokes the completion callback.  A pre-response     *)
(* restarts the timeout only if the running timer could still be stopped.  *)
(***************************************************************************)
EXTENDS Integers, Sequences, FiniteSets

CONSTANTS MaxMsgs    \* messages the service side may send for the request

VARIABLES pend,      \* entry still in mqReqs
          armed,     \* a timer (queue timer or own timer) is running
          fired,     \* number of timeout callbacks started but not yet under the lock
          msgs,      \* messages in the listener channel, in arrival order
          sent,      \* number of messages the service has sent
          comps      \* completions delivered to the caller

vars == <<pend, armed, fired, msgs, sent, comps>>

Init == pend = TRUE /\ armed = TRUE /\ fired = 0 /\ msgs = <<>> /\ sent = 0 /\ comps = <<>>

SvcSend(m) ==
    /\ sent < MaxMsgs
    /\ msgs' = Append(msgs, m) /\ sent' = sent + 1
    /\ UNCHANGED <<pend, armed, fired, comps>>

(* the listener takes the next message under the lock *)
ListenerTake ==
    /\ msgs # <<>>
    /\ msgs' = Tail(msgs)
    /\ LET m == Head(msgs)
       IN IF ~pend THEN UNCHANGED <<pend, armed, fired, comps>>
          ELSE IF m = "pre"
               THEN \* restart the timeout iff the running timer can still be stopped
                    /\ armed' = armed
                    /\ UNCHANGED <<pend, fired, comps>>
               ELSE /\ pend' = FALSE /\ armed' = FALSE
                    /\ comps' = Append(comps, IF m = "nr" THEN "notFound" ELSE "reply")
                    /\ UNCHANGED fired
    /\ UNCHANGED sent

(* the running timer expires: its callback is started *)
TimerFire ==
    /\ armed
    /\ armed' = FALSE /\ fired' = fired + 1
    /\ UNCHANGED <<pend, msgs, sent, comps>>

(* the timeout callback takes the lock *)
TimeoutTake ==
    /\ fired > 0
    /\ fired' = fired - 1
    /\ IF pend THEN pend' = FALSE /\ comps' = Append(comps, "timeout")
       ELSE UNCHANGED <<pend, comps>>
    /\ UNCHANGED <<armed, msgs, sent>>

Next == (\E m \in {"pre", "reply", "nr"} : SvcSend(m)) \/ ListenerTake \/ TimerFire \/ TimeoutTake

Spec == Init /\ [][Next]_vars /\ WF_vars(ListenerTake) /\ WF_vars(TimerFire) /\ WF_vars(TimeoutTake)

AtMostOnce == Len(comps) <= 1
PendIffNone == pend <=> comps = <<>>
NoTimerAfterDone == ~pend => ~armed
(* a pending request always has a way to complete *)
CanComplete == pend => (armed \/ fired > 0)
ExactlyOnce == <>[](Len(comps) = 1)
=============================================================================
