--------------------------- MODULE ObserverTrace ---------------------------
(***************************************************************************)
(* Trace specification that drives the observer (ResObserver) from the     *)
(* boundary events recorded while the real gateway executed a schedule.    *)
(* All updates are deterministic functions of the recorded event, so the   *)
(* validation is linear in the trace length.  Property predicates are      *)
(* evaluated non-halting: each failure adds a record to viol, so one run   *)
(* reports every violation of every property in every concatenated trace.  *)
(***************************************************************************)
EXTENDS ResObserver, CacheTrace, SubQueueTrace, ResQueueTrace, SubAccessTrace, ResSubTrace, SubReadyTrace, ConnQueueTrace, Json, SequencesExt

Trace == ndJsonDeserialize("trace.ndjson")

VARIABLES l, o, viol
vars == <<l, o, viol>>

-----------------------------------------------------------------------------
NewClient(lg, v111, http) ==
    [alive |-> TRUE, gone |-> FALSE, lg |-> lg, v111 |-> v111, http |-> http,
     direct |-> <<>>, res |-> <<>>, exempt |-> {}, rn |-> <<>>,
     pend |-> <<>>, nsub |-> <<>>, per |-> <<>>, grant |-> <<>>,
     tok |-> "nil", tokq |-> <<>>, dispW |-> <<>>, unsent |-> {},
     recheck |-> <<>>, owed |-> <<>>, stale |-> {}, intok |-> 0, trigc |-> <<>>,
     gotByGet |-> <<>>, gotKept |-> <<>>, taintG |-> FALSE, taintU |-> FALSE, taintW |-> FALSE, dropped |-> <<>>, hUnsub |-> {}, strayGot |-> <<>>, unsendPend |-> {},
     lastTokT |-> 0, lastAcc |-> <<>>, tid |-> "", dispCalled |-> {}]

InitO(tr) ==
    [tr |-> tr, conns |-> <<>>, ann |-> <<>>, norm |-> <<>>, keyn |-> <<>>,
     mqsubs |-> {}, mqpend |-> <<>>, handed |-> <<>>, window |-> {},
     refetch |-> <<>>, ctrig |-> <<>>, resets |-> <<>>, thr |-> <<>>, thrNew |-> 0, thrBudget |-> 0, stop |-> [l |-> 0, cause |-> "", open |-> {}], down |-> FALSE, hadStop |-> FALSE, final |-> FALSE, resetObl |-> {}, keyq |-> <<>>, qev |-> <<>>, ce |-> <<>>, sq |-> <<>>, sr |-> <<>>, srOf |-> <<>>, cq |-> <<>>, rq |-> <<>>, sa |-> <<>>, rst |-> <<>>, csub |-> <<>>, refRp |-> <<>>, deadRp |-> {}]

Short(s) == IF Len(s) > 48 THEN SubSeq(s, 1, 24) \o "...(" \o ToString(Len(s)) \o " characters)" ELSE s

V(p, why, kf) == [p |-> p, tr |-> o.tr, l |-> l, why |-> why, kf |-> kf]

Unloaded == [st |-> "un", cands |-> {}]
AnnOf(ann, k) == Get(ann, k, Unloaded)

KeyOf(cl, rid) == IF rid \in DOMAIN cl.rn THEN cl.rn[rid].key ELSE rid
NameOf(cl, rid) == IF rid \in DOMAIN cl.rn THEN cl.rn[rid].n ELSE rid
QueryOf(cl, rid) == IF rid \in DOMAIN cl.rn THEN cl.rn[rid].q ELSE ""

SetConn(oo, c, cl) == [oo EXCEPT !.conns = Put(oo.conns, c, cl)]

Res(oo, vs) == [o |-> oo, v |-> vs]

-----------------------------------------------------------------------------
(* The reference client processes one message: merge the resource set,     *)
(* apply, check applicability (C02), collect what is no longer retained.   *)

NewPer(start) == [start |-> start, last |-> 0, dl |-> {}]

(* a request of the client is outstanding for a resource it holds right before the drop (so the gateway has sent it) *)
(* and from which x is reached in the announced state (finding KF-W: the in-flight direct count keeps the already    *)
(* sent resource and everything below it in state sent; the resource of a call / auth / new answer is not known      *)
(* before the answer)                                                                                                 *)
RECURSIVE AnnClosure(_, _)
AnnClosure(cl, S) ==
    LET N == S \cup UNION {UNION {Refs(e) : e \in AnnOf(o.ann, Get(o.norm, KeyOf(cl, x), KeyOf(cl, x))).cands} : x \in S}
    IN IF N = S THEN S ELSE AnnClosure(cl, N)
PendOn(cl, x, oldH) == \E i \in DOMAIN cl.pend : (cl.pend[i].m \in {"subscribe", "get"} /\ (cl.pend[i].rid \in oldH \/ cl.pend[i].rid \in DOMAIN cl.dropped)
                                                        \* reached in the announced state, or in the client's own copy: a
                                                        \* reference that an event not yet delivered has replaced is still
                                                        \* held by the gateway's subscription until that event is sent
                                                        /\ (x \in AnnClosure(cl, {cl.pend[i].rid}) \/ x \in Closure({cl.pend[i].rid}, cl.res)))
                                                   \/ cl.pend[i].m \in {"call", "auth", "new"}

(* after a message: keep only retained resources; open/close holding periods *)
Collect(cl, res2, direct2) ==
    LET H2 == Held(direct2, res2)
        oldH == Held(cl.direct, cl.res)
        per2 == [r \in H2 |-> IF r \in DOMAIN cl.per /\ r \in oldH THEN cl.per[r] ELSE NewPer(l)]
    IN [cl EXCEPT !.res = RestrictTo(res2, H2), !.direct = direct2, !.exempt = cl.exempt \cap H2,
                  !.per = per2, !.stale = cl.stale \cap H2,
                  !.dropped = [x \in {y \in oldH \ H2 : PendOn(cl, y, oldH)} |-> l] @@ [x \in DOMAIN @ \ H2 |-> @[x]]]

Dangling(res2, direct2) == {r \in Held(direct2, res2) : r \notin DOMAIN res2}

(* Finding KF-G: a get response delivered these resources while the request   *)
(* now answered was outstanding, and the gateway considers them sent.          *)
(* gotByGet[x] = line of the get response that last delivered x (events queued during the get are flushed right after *)
(* it); gotKept[x] = the same, recorded only when another subscribe / get of the client from which x is reachable (or *)
(* a call / auth / new, whose result resource is unknown) was outstanding then: its in-flight direct count is what     *)
(* keeps x in state sent (without one the collector marks the got resources unsent again)                              *)
ByGet(cl, d, reqL) == \A x \in d : Get(cl.gotKept, x, 0) > reqL

(* (a drop is recorded only while a request that keeps the resource sent is outstanding - PendOn - and forgotten *)
(* when the client holds the resource again; the request now answered may have been sent after the drop)          *)
(* Finding KF-W: the client dropped these resources (last reference removed *)
(* by an event) while the request now answered was outstanding; the request's *)
(* direct count, taken at request time, kept them in state sent.              *)
ByDrop(cl, d, reqL) == \A x \in d : Get(cl.dropped, x, 0) > 0

(* KF-U, second part: a resource marked unsent on this connection (and not disposed since) is sent again with content *)
(* that differs from every candidate of the announced state - the snapshot taken when it was loaded                   *)
StaleResend(cl, set) ==
    \E rid \in DOMAIN SetRes(set) \cap cl.unsent :
        LET k == KeyOf(cl, rid)
            a == AnnOf(o.ann, Get(o.norm, k, k))
        IN a.st = "ld" /\ ~\E x \in a.cands : Encode(x, cl.lg) = SetRes(set)[rid]

(* resources whose data the gateway delivered only inside a stray event that one of the findings explains: the client *)
(* ignores such an event, the gateway considers the resources sent and omits them afterwards                         *)
ByStray(cl, d) == d # {} /\ \A x \in d : x \in DOMAIN cl.strayGot

KfOf(cl, d, reqL) ==
    IF d # {} /\ ByStray(cl, d) THEN cl.strayGot[CHOOSE x \in d : TRUE]
    ELSE IF cl.taintU THEN "KF-U"
    ELSE IF cl.taintG \/ (d # {} /\ ByGet(cl, d, reqL)) THEN "KF-G"
    ELSE IF cl.taintW \/ (d # {} /\ ByDrop(cl, d, reqL)) THEN "KF-W"
    ELSE ""

DanglingViol(cl, res2, direct2, what, reqL) ==
    LET d == Dangling(res2, direct2)
    IN IF d = {} THEN {}
       ELSE {V("C02", what \o ": dangling reference, no data for " \o ToString(d), KfOf(cl, d, reqL))}

(* line of the oldest outstanding subscribe-like request of the connection (l if none) *)
MinPendL(cl) ==
    LET ls == {cl.pend[i].l : i \in {j \in DOMAIN cl.pend : cl.pend[j].m \in {"subscribe", "get", "new", "call", "auth"}}}
    IN IF ls = {} THEN l ELSE CHOOSE x \in ls : \A y \in ls : x <= y

TaintW(cl, res2, direct2, reqL) ==
    LET d == Dangling(res2, direct2)
    IN cl.taintW \/ (d # {} /\ ~cl.taintU /\ ~cl.taintG /\ ~ByGet(cl, d, reqL) /\ ByDrop(cl, d, reqL))

TaintG(cl, res2, direct2, reqL) ==
    LET d == Dangling(res2, direct2)
    IN cl.taintG \/ (d # {} /\ ~cl.taintU /\ ByGet(cl, d, reqL))

-----------------------------------------------------------------------------
(* Access ledger.  A grant is the last access answer for (connection, key): *)
(* l = line it was handed over, inv = line at which a trigger that reached   *)
(* the gateway after l was processed by the connection (0 = still valid),    *)
(* dis = line at which the subscription it belonged to was disposed.         *)
(* "ok": usable; "kf": the request was outstanding when the trigger was       *)
(* processed (finding KF-R: the verdict is checked once, at request time);    *)
(* "bad": no usable verdict.                                                  *)
(* tokT: line at which the last token event of a connection that already had a token reached the gateway. An    *)
(* answer to an access request sent before it (rl < tokT) but handed over after it (l > tokT) was computed for the *)
(* replaced token: it backs nothing but requests that were already outstanding (KF-R).                              *)
GrantState(g, reqL, allowed, tokT) ==
    IF g.none THEN "bad"
    ELSE IF g.dis > 0 /\ reqL > g.dis THEN "bad"
    ELSE IF ~g.ok \/ ~allowed THEN "bad"
    ELSE IF g.inv > 0 THEN (IF reqL < g.inv THEN "kf" ELSE "bad")
    ELSE IF tokT > 0 /\ g.rl < tokT /\ g.l > tokT THEN (IF reqL < tokT THEN "kf" ELSE "bad")
    ELSE "ok"

NoGrant == [get |-> FALSE, call |-> "", calllist |-> <<>>, ok |-> FALSE, l |-> 0, rl |-> 0, tok |-> "", inv |-> 0, dis |-> 0, none |-> TRUE]
GrantsOf(cl, k) == Get(cl.grant, k, <<>>)
GrantOf(cl, k) == IF GrantsOf(cl, k) = <<>> THEN NoGrant ELSE GrantsOf(cl, k)[Len(GrantsOf(cl, k))]

(* The answers that may back a decision for a client request sent at reqL:   *)
(* every answer for (connection, resource) that is still valid - validity is *)
(* ended only by a trigger (inv), by the end of the subscription the answer  *)
(* was cached on (dis), or by the stale-token rule; a later answer does not  *)
(* end it (two subscriptions of one connection on one resource - a throw-away *)
(* one of a call next to a subscribe - each ask on their own, and a refusal   *)
(* given to one does not revoke the grant cached on the other).               *)
Verdict(cl, k, reqL, Allowed(_)) ==
    LET gs == GrantsOf(cl, k)
        cand == DOMAIN gs
        sts == {GrantState(gs[i], reqL, Allowed(gs[i]), cl.lastTokT) : i \in cand}
    IN IF "ok" \in sts THEN "ok" ELSE IF "kf" \in sts THEN "kf" ELSE "bad"

(* C04: a response that hands rid to c as a root needs a valid get grant.  *)
GetAllowed(g) == g.get
GrantViol(cl, rid, reqL, what) ==
    LET g == GrantOf(cl, KeyOf(cl, rid))
        st == Verdict(cl, KeyOf(cl, rid), reqL, GetAllowed)
    IN IF st = "ok" THEN {}
       ELSE {V("C04", what \o " for " \o rid \o " without a valid get grant " \o ToString(g), IF st = "kf" THEN "KF-R" ELSE "")}

-----------------------------------------------------------------------------
H_open(r) ==
    \* (an HTTP request makes at most one root subscription: it may create one reference throttle)
    Res([SetConn(o, r.c, NewClient(r.lg, r.ver \in {"1.1.1", "none"}, r.http)) EXCEPT !.thrBudget = IF r.http THEN @ + 1 ELSE @], {})

H_close(r) ==
    IF r.c \in DOMAIN o.conns
    THEN Res(SetConn(o, r.c, [o.conns[r.c] EXCEPT !.alive = FALSE]), {})
    ELSE Res(o, {})

H_creq(r) ==
    IF r.c \notin DOMAIN o.conns \/ ~o.conns[r.c].alive THEN Res(o, {})
    ELSE LET cl == o.conns[r.c]
             cl2 == [cl EXCEPT !.pend = Put(cl.pend, r.id, [m |-> r.m, rid |-> r.rid, key |-> r.key, count |-> r.count, action |-> r.action, l |-> l,
                                                                  held |-> r.rid \in Held(cl.direct, cl.res), fwd |-> FALSE]),
                               !.rn = Put(cl.rn, r.rid, [n |-> r.n, q |-> r.q, key |-> r.key])]
         \* C19: a client request makes at most one root subscription, which may create one reference throttle
         IN Res([SetConn(o, r.c, cl2) EXCEPT !.thrBudget = IF r.m \in {"subscribe", "get", "call", "auth", "new"} THEN @ + 1 ELSE @], {})

(* outstanding requests of c that may take a direct subscription on rid *)
PendingTakers(cl, rid, exceptId) ==
    {i \in DOMAIN cl.pend \ {exceptId} : cl.pend[i].m \in {"subscribe", "new", "call", "auth", "get"} /\
        (cl.pend[i].rid = rid \/ cl.pend[i].m \in {"new", "call", "auth"})}

H_cres(r) ==
    LET cl0 == o.conns[r.c]
        leakV == IF r.leak = <<>> THEN {} ELSE {V("C10", "connection id in response frame", "")}
    IN
    IF r.id \notin DOMAIN cl0.pend
    THEN Res(o, leakV \cup {V("C07", "response for id " \o ToString(r.id) \o " that is not outstanding (unknown or duplicate)", "")})
    ELSE
    LET req == cl0.pend[r.id]
        isGet == cl0.pend[r.id].m = "get"
        cl1 == [cl0 EXCEPT !.pend = Del(cl0.pend, r.id), !.rn = r.rn @@ cl0.rn, !.taintU = @ \/ StaleResend(cl0, r.set),
                           !.gotByGet = [x \in DOMAIN cl0.gotKept \ (IF isGet THEN {} ELSE DOMAIN SetRes(r.set)) |-> @[x]],
                           !.gotKept = IF isGet THEN @ ELSE [x \in DOMAIN @ \ DOMAIN SetRes(r.set) |-> @[x]]]
        shapeV == IF r.shape THEN {} ELSE {V("C07", "error response without string code/message", "")}
        res1 == SetRes(r.set) @@ cl1.res
        nsubOf(rid) == Get(cl1.nsub, rid, 0)
        dirOf(rid) == Get(cl1.direct, rid, 0)
    IN
    CASE req.m \in {"subscribe"} /\ r.ok ->
            LET d2 == Put(cl1.direct, req.rid, dirOf(req.rid) + 1)
                cl2 == [Collect(cl1, res1, d2) EXCEPT !.nsub = Put(cl1.nsub, req.rid, nsubOf(req.rid) + 1),
                                                      !.taintG = TaintG(cl1, res1, d2, req.l),
                                                      !.taintW = TaintW(cl1, res1, d2, req.l)]
            IN Res(SetConn(o, r.c, cl2),
                   leakV \cup shapeV \cup DanglingViol(cl1, res1, d2, "subscribe response", req.l) \cup GrantViol(cl1, req.rid, req.l, "subscribe data"))
      [] req.m = "get" /\ r.ok ->
            LET getH == Closure({req.rid}, res1)
                miss == {x \in getH : x \notin DOMAIN res1}
                kfm == KfOf(cl1, miss, req.l)
                anyRes == \E i \in DOMAIN cl1.pend : cl1.pend[i].m \in {"call", "auth", "new"}
                pendH == Closure({cl1.pend[i].rid : i \in {j \in DOMAIN cl1.pend : cl1.pend[j].m \in {"subscribe", "get"}}}, res1)
                kept == {x \in DOMAIN SetRes(r.set) : anyRes \/ x \in pendH}
                cl2 == [Collect(cl1, res1, cl1.direct) EXCEPT !.gotByGet = [x \in DOMAIN SetRes(r.set) |-> l] @@ @,
                                                              !.gotKept = [x \in kept |-> l] @@ @,
                                                              !.taintG = @ \/ (miss # {} /\ kfm = "KF-G"),
                                                              !.taintW = @ \/ (miss # {} /\ kfm = "KF-W")]
            IN Res(SetConn(o, r.c, cl2),
                   leakV \cup shapeV \cup GrantViol(cl1, req.rid, req.l, "get data")
                   \cup (IF miss = {} THEN {} ELSE {V("C02", "get response leaves references without data: " \o ToString(miss), kfm)}))
      [] req.m = "unsubscribe" ->
            LET n == nsubOf(req.rid)
                takers == PendingTakers(cl1, req.rid, r.id)
                \* finding KF-H: an in-flight count is involved now, or an earlier unsubscribe on this resource was answered
                \* against one (the confirmed count has been off by that since)
                kf == IF takers # {} \/ req.rid \in cl1.hUnsub THEN "KF-H" ELSE ""
            IN IF r.ok
               THEN LET d2 == Put(cl1.direct, req.rid, MaxI(0, dirOf(req.rid) - req.count))
                        cl2 == [Collect(cl1, res1, d2) EXCEPT !.nsub = Put(cl1.nsub, req.rid, MaxI(0, n - req.count)),
                                                              !.hUnsub = IF req.count > n /\ takers # {} THEN @ \cup {req.rid} ELSE @]
                    IN Res(SetConn(o, r.c, cl2),
                           leakV \cup (IF req.count >= 1 /\ req.count <= n THEN {}
                                      ELSE {V("C08", "unsubscribe count " \o ToString(req.count) \o " succeeded with " \o ToString(n) \o " confirmed direct subscriptions on " \o req.rid, kf)}))
               ELSE Res(SetConn(o, r.c, cl1),
                        leakV \cup shapeV \cup
                        (IF req.count < 1
                         THEN IF r.code = "system.invalidParams" THEN {} ELSE {V("C08", "bad count answered with " \o r.code, "")}
                         ELSE IF req.count > n
                              THEN IF r.code = "system.noSubscription" THEN {} ELSE {V("C08", "unsubscribe beyond count answered with " \o r.code, "")}
                              ELSE {V("C08", "unsubscribe count " \o ToString(req.count) \o " failed (" \o r.code \o ") with " \o ToString(n) \o " confirmed on " \o req.rid, kf)}))
      [] req.m \in {"call", "auth", "new"} /\ r.ok /\ r.rrid # "" ->
            LET gr == GrantOf(cl1, KeyOf(cl1, r.rrid))
                \* an error in place of the resource because access was refused leaves no subscription (C04);
                \* a resource that failed to load is still a resource response and stays subscribed (C08)
                noSub == (cl1.v111 /\ req.m \in {"call", "auth"}) \/ (r.rrid \in DOMAIN r.set.errors /\ ~(gr.ok /\ gr.get))
                d2 == IF noSub THEN cl1.direct ELSE Put(cl1.direct, r.rrid, dirOf(r.rrid) + 1)
                cl2 == [Collect(cl1, res1, d2) EXCEPT !.nsub = IF noSub THEN cl1.nsub ELSE Put(cl1.nsub, r.rrid, nsubOf(r.rrid) + 1),
                                                      !.taintG = TaintG(cl1, res1, d2, req.l),
                                                      !.taintW = TaintW(cl1, res1, d2, req.l)]
            IN Res(SetConn(o, r.c, cl2),
                   leakV \cup shapeV \cup DanglingViol(cl1, res1, d2, "resource response", req.l)
                   \cup (IF noSub THEN {} ELSE GrantViol(cl1, r.rrid, req.l, "resource response data")))
      [] OTHER -> Res(SetConn(o, r.c, cl1), leakV \cup shapeV)

-----------------------------------------------------------------------------
(* event stream ledger (C03) *)
HandedOf(n) == Get(o.handed, n, <<>>)

(* numbered, non-superseded events of n handed over with seq in (lo, hi) *)
Between(n, lo, hi) == {h \in SeqToSet(HandedOf(n)) : h.seq > lo /\ h.seq < hi /\ ~h.sup}

(* a change event that a reset re-fetch derived: it carries the number of an event the re-fetch superseded (C03's *)
(* exception clause) and may follow later custom events                                                          *)
Derived(cl, r) == r.ev = "change" /\ \E h \in SeqToSet(HandedOf(NameOf(cl, r.rid))) : h.seq = r.seq /\ h.sup

SeqViol(cl, r) ==
    IF r.seq = 0 \/ r.rid \notin DOMAIN cl.per \/ QueryOf(cl, r.rid) # "" \/ Derived(cl, r) THEN {}
    ELSE LET p == cl.per[r.rid]
             n == NameOf(cl, r.rid)
         IN (IF r.seq <= p.last
             \* (on a connection tainted by a finding this is the other half of a gap reported under it: the skipped event
             \* arrives late - e.g. KF-U: an unsent resource sent again releases its queue while an event that waits for a new
             \* reference is still pending)
             THEN {V("C03", "event seq " \o ToString(r.seq) \o " on " \o r.rid \o " delivered after seq " \o ToString(p.last) \o " (out of order or duplicate)",
                     IF cl.taintU THEN "KF-U" ELSE IF cl.taintG THEN "KF-G" ELSE IF cl.taintW THEN "KF-W" ELSE "")}
             ELSE {})
            \cup
            (IF p.last > 0 /\ r.seq > p.last /\ Between(n, p.last, r.seq) # {}
             THEN {V("C03", "gap on " \o r.rid \o ": events " \o ToString({h.seq : h \in Between(n, p.last, r.seq)}) \o " skipped", IF cl.taintU THEN "KF-U" ELSE IF cl.taintG THEN "KF-G" ELSE IF cl.taintW THEN "KF-W" ELSE "")}
             ELSE {})
            \cup
            (IF p.last = 0 /\ {h \in Between(n, 0, r.seq) : h.l > p.start} # {}
             THEN {V("C03", "gap on " \o r.rid \o ": events handed over after the hand-off were skipped before seq " \o ToString(r.seq), IF cl.taintU THEN "KF-U" ELSE IF cl.taintG THEN "KF-G" ELSE IF cl.taintW THEN "KF-W" ELSE "")}
             ELSE {})

SeqUpdate(cl, r) ==
    IF r.seq = 0 \/ r.rid \notin DOMAIN cl.per THEN cl
    ELSE [cl EXCEPT !.per = Put(cl.per, r.rid, [cl.per[r.rid] EXCEPT !.last = MaxI(@, r.seq), !.dl = @ \cup {r.seq}])]

(* C06: nothing handed over after the trigger is delivered before the verdict *)
RecheckViol(cl, r) ==
    IF r.rid \notin DOMAIN cl.recheck \/ r.seq = 0 THEN {}
    ELSE LET w == cl.recheck[r.rid]
             hs == {h \in SeqToSet(HandedOf(NameOf(cl, r.rid))) : h.seq = r.seq}
         IN IF \E h \in hs : h.l > w.l
            THEN {V("C06", "event seq " \o ToString(r.seq) \o " on " \o r.rid \o " delivered while the access re-check is pending", "")}
            ELSE {}

H_cev(r) ==
    LET cl0 == o.conns[r.c]
        cl1 == [cl0 EXCEPT !.rn = r.rn @@ cl0.rn, !.gotByGet = [x \in DOMAIN @ \ DOMAIN SetRes(r.set) |-> @[x]],
                           !.gotKept = [x \in DOMAIN @ \ DOMAIN SetRes(r.set) |-> @[x]], !.taintU = @ \/ StaleResend(cl0, r.set)]
        leakV == IF r.leak = <<>> THEN {} ELSE {V("C10", "connection id in event frame", "")}
        H == Held(cl1.direct, cl1.res)
        \* KF-U also: Unsend leaves the subscription un-queued, so events keep flowing for a resource the gateway itself
        \* considers unsent (rightly or not) until it is sent again or disposed
        kfU == IF cl1.taintU \/ r.rid \in cl1.unsent THEN "KF-U"
               ELSE IF cl1.taintG \/ r.rid \in DOMAIN cl1.gotByGet THEN "KF-G"
               ELSE IF cl1.taintW \/ \E i \in DOMAIN cl1.pend : cl1.pend[i].m \in {"subscribe", "get", "new", "call", "auth"} /\ cl1.pend[i].l < Get(cl1.dropped, r.rid, 0) THEN "KF-W"
               ELSE ""
        strayV == IF r.rid \in H \/ r.ev = "unsubscribe" THEN {}
                  ELSE {V("C02", r.ev \o " event for " \o r.rid \o " which the client does not hold", kfU),
                        \* C03, last clause: no event for a resource before the response or event that hands it to the client
                        V("C03", r.ev \o " event for " \o r.rid \o " delivered while the client does not hold the resource (before it is handed over, or after it was released)", kfU)}
        res1 == SetRes(r.set) @@ cl1.res
        cur == Get(cl1.res, r.rid, ErrRes("none"))
        \* data carried by a stray event that a finding explains / delivered properly again
        sg1 == IF strayV # {} /\ kfU # "" THEN [x \in DOMAIN SetRes(r.set) |-> kfU] @@ cl1.strayGot
               ELSE [x \in DOMAIN cl1.strayGot \ DOMAIN SetRes(r.set) |-> cl1.strayGot[x]]
        qlockV == IF r.seq = 0 THEN {}
                  ELSE LET n == NameOf(cl1, r.rid)
                           hs == {h \in SeqToSet(HandedOf(n)) : h.seq = r.seq}
                       IN IF \E sj \in DOMAIN o.qev : o.qev[sj].n = n /\ o.qev[sj].open # {} /\ \E h \in hs : h.l > o.qev[sj].l
                          THEN {V("C13", "event seq " \o ToString(r.seq) \o " on " \o r.rid \o " delivered while query requests of an earlier query event are unanswered", "")}
                          ELSE {}
        seqV == SeqViol(cl1, r) \cup RecheckViol(cl1, r) \cup qlockV
        \* the events queued during a get are flushed straight after its response: once another frame arrives, only the
        \* got resources that an in-flight request keeps sent remain attributable
        cl1s == [SeqUpdate(cl1, r) EXCEPT !.strayGot = sg1,
                                          !.gotByGet = IF strayV = {} THEN [x \in DOMAIN @ \cap DOMAIN cl1.gotKept |-> @[x]] ELSE @]
    IN
    CASE r.ev = "change" ->
            IF cur.k # "m"
            THEN Res(SetConn(o, r.c, cl1s), leakV \cup strayV \cup seqV \cup
                     (IF r.rid \in H THEN {V("C02", "change event on " \o r.rid \o " which is not a model at the client", kfU)} ELSE {}))
            ELSE LET res2 == Put(res1, r.rid, ApplyChange(cur, r.vals))
                     cl2 == [Collect(cl1s, res2, cl1.direct) EXCEPT !.taintW = TaintW(cl1, res2, cl1.direct, MinPendL(cl1))]
                 IN Res(SetConn(o, r.c, cl2), leakV \cup strayV \cup seqV \cup DanglingViol(cl1, res2, cl1.direct, "change event", MinPendL(cl1)))
      [] r.ev = "add" ->
            IF ~AddOK(cur, r.idx)
            THEN Res(SetConn(o, r.c, cl1s), leakV \cup strayV \cup seqV \cup
                     (IF r.rid \in H THEN {V("C02", "add event on " \o r.rid \o " inapplicable at the client (kind or index " \o ToString(r.idx) \o ")", kfU)} ELSE {}))
            ELSE LET res2 == Put(res1, r.rid, ApplyAdd(cur, r.idx, r.val))
                     cl2 == [Collect(cl1s, res2, cl1.direct) EXCEPT !.taintW = TaintW(cl1, res2, cl1.direct, MinPendL(cl1))]
                 IN Res(SetConn(o, r.c, cl2), leakV \cup strayV \cup seqV \cup DanglingViol(cl1, res2, cl1.direct, "add event", MinPendL(cl1)))
      [] r.ev = "remove" ->
            IF ~RemoveOK(cur, r.idx)
            THEN Res(SetConn(o, r.c, cl1s), leakV \cup strayV \cup seqV \cup
                     (IF r.rid \in H THEN {V("C02", "remove event on " \o r.rid \o " inapplicable at the client (kind or index " \o ToString(r.idx) \o ")", kfU)} ELSE {}))
            ELSE LET res2 == Put(res1, r.rid, ApplyRemove(cur, r.idx))
                     cl2 == Collect(cl1s, res2, cl1.direct)
                 IN Res(SetConn(o, r.c, cl2), leakV \cup strayV \cup seqV)
      [] r.ev = "delete" ->
            Res(SetConn(o, r.c, [cl1s EXCEPT !.exempt = @ \cup {r.rid},
                                             !.per = IF r.rid \in DOMAIN @ THEN Put(@, r.rid, [@[r.rid] EXCEPT !.start = l, !.last = 0]) ELSE @]),
                leakV \cup strayV)
      [] r.ev = "unsubscribe" ->
            LET d2 == Put(cl1.direct, r.rid, 0)
                owedV == IF r.rid \in DOMAIN cl1.owed /\ cl1.owed[r.rid] # r.reason /\ r.reason # "system.deleted"
                         THEN {V("C06", "unsubscribe event on " \o r.rid \o " carries reason " \o r.reason \o ", expected " \o cl1.owed[r.rid], "")}
                         ELSE {}
                cl2 == [Collect(cl1s, res1, d2) EXCEPT !.nsub = Put(cl1.nsub, r.rid, 0), !.owed = Del(cl1.owed, r.rid),
                                                       !.hUnsub = IF PendingTakers(cl1, r.rid, -1) # {} THEN @ \cup {r.rid} ELSE @]
                cl3 == [cl2 EXCEPT !.per = IF r.rid \in DOMAIN @ THEN Put(@, r.rid, [@[r.rid] EXCEPT !.start = l, !.last = 0]) ELSE @]
            IN Res(SetConn(o, r.c, cl3),
                   leakV \cup owedV \cup (IF Get(cl1.direct, r.rid, 0) > 0 \/ PendingTakers(cl1, r.rid, -1) # {} THEN {}
                              ELSE {V("C02", "unsubscribe event for " \o r.rid \o " without a direct subscription", kfU)}))
      [] OTHER -> \* custom and unknown events
            Res(SetConn(o, r.c, cl1s), leakV \cup strayV \cup seqV)

-----------------------------------------------------------------------------
InvalidateBefore(grant, keys, T) ==
    [k \in DOMAIN grant |-> IF k \in keys
                            THEN [i \in DOMAIN grant[k] |-> IF grant[k][i].l < T /\ grant[k][i].inv = 0 THEN [grant[k][i] EXCEPT !.inv = l] ELSE grant[k][i]]
                            ELSE grant[k]]

(* handover line of the trigger a reaccess note is attributed to: inside the  *)
(* token fan-out loop it is that token event; otherwise the oldest trigger    *)
(* routed through the cache for this name that has not been attributed to an  *)
(* earlier note of this subscription (a lower bound of the real one).         *)
(* triggers of a resource id: access resets that match its name, and - a query resource being a resource of its own, *)
(* which events on the name do not concern - reaccess events only for the resource without a query                 *)
TrigsOf(cl, rid) ==
    SeqToSet(Get(o.ctrig, NameOf(cl, rid), <<>>))
    \cup (IF QueryOf(cl, rid) = "" THEN SeqToSet(Get(o.ctrig, "event:" \o NameOf(cl, rid), <<>>)) ELSE {})

TrigLine(cl, rid) ==
    IF cl.intok > 0 THEN cl.intok
    ELSE LET cons == Get(cl.trigc, rid, 0)
             cand == {t \in TrigsOf(cl, rid) : t > cons}
         IN IF cand = {} THEN 0 ELSE CHOOSE t \in cand : \A u \in cand : t <= u

H_note0(r) ==
    CASE r.kind = "unsend" /\ r.c \in DOMAIN o.conns ->
            \* finding KF-U is about resources marked unsent although the client still holds them; whether this one is
            \* such is known once the client has processed the frame the collection belongs to (SettleUnsend)
            Res(SetConn(o, r.c, [o.conns[r.c] EXCEPT !.unsent = @ \cup {r.rid}, !.stale = @ \cup {r.rid}, !.unsendPend = @ \cup {r.rid}]), {})
      [] r.kind = "dispose" /\ r.c \in DOMAIN o.conns ->
            LET cl == o.conns[r.c]
                \* the subscription is disposed while continuations are parked on it, or while a request
                \* of the client on that resource is outstanding (its continuation may be running right now)
                \* ... unless the latest access answer refused get access: then every waiter of that verdict is told so
                \* (the callbacks of one access answer all run, each answers its request with the refusal)
                g0 == GrantOf(cl, KeyOf(cl, r.rid))
                refused == ~g0.none /\ ~(g0.ok /\ g0.get)
                w == r.ready + r.access > 0 \/ r.called \/ (~refused /\ \E i \in DOMAIN cl.pend : cl.pend[i].rid = r.rid)
                k == KeyOf(cl, r.rid)
            IN Res(SetConn(o, r.c, [cl EXCEPT !.dispW = IF w THEN Put(@, r.rid, l) ELSE @,
                                              !.unsent = @ \ {r.rid},
                                              !.grant = IF k \in DOMAIN @ THEN Put(@, k, [i \in DOMAIN @[k] |-> IF @[k][i].dis = 0 THEN [@[k][i] EXCEPT !.dis = l] ELSE @[k][i]]) ELSE @,
                                              !.recheck = Del(@, r.rid),
                                              !.trigc = Del(@, r.rid),
                                              !.dispCalled = IF r.called THEN @ \cup {k} ELSE @]), {})
      [] r.kind \in {"reaccess", "reaccessDeferred"} /\ r.c \in DOMAIN o.conns ->
            LET cl == o.conns[r.c]
                k == KeyOf(cl, r.rid)
                T == TrigLine(cl, r.rid)
                g2 == InvalidateBefore(cl.grant, {k}, T)
                \* access requests of this connection for this key that are still unanswered
                pendAcc == {x \in DOMAIN o.mqpend : o.mqpend[x].t = "access" /\ o.mqpend[x].c = r.c /\ o.mqpend[x].key = k}
                fresh == {x \in pendAcc : o.mqpend[x].l > T}
                k0 == IF fresh # {} THEN CHOOSE x \in fresh : TRUE ELSE 0
                old == IF pendAcc \ fresh # {} THEN CHOOSE x \in pendAcc \ fresh : TRUE ELSE 0
                rc2 == IF r.kind = "reaccess" /\ r.direct > 0 THEN Put(cl.recheck, r.rid, [l |-> T, k |-> k0, old |-> old]) ELSE cl.recheck
            IN Res(SetConn(o, r.c, [cl EXCEPT !.grant = g2, !.recheck = rc2,
                                              !.trigc = IF cl.intok > 0 THEN @ ELSE Put(@, r.rid, T)]), {})
      [] r.kind = "token" /\ r.c \in DOMAIN o.conns ->
            LET cl == o.conns[r.c]
            IN IF cl.tokq = <<>> THEN Res(o, {})
               ELSE LET T == Head(cl.tokq).l
                        g2 == IF r.had THEN InvalidateBefore(cl.grant, DOMAIN cl.grant, T) ELSE cl.grant
                    IN Res(SetConn(o, r.c, [cl EXCEPT !.tok = Head(cl.tokq).tok, !.tid = Head(cl.tokq).tid, !.tokq = Tail(cl.tokq), !.grant = g2,
                                                       !.intok = IF r.had THEN T ELSE 0,
                                                       !.lastTokT = IF r.had THEN T ELSE @]), {})
      [] r.kind = "tokenDone" /\ r.c \in DOMAIN o.conns ->
            Res(SetConn(o, r.c, [o.conns[r.c] EXCEPT !.intok = 0]), {})
      [] r.kind \in {"thrAdd", "thrDone"} ->
            \* C19: the throttle's bookkeeping follows Throttle.tla and never exceeds its limit
            LET prev == Get(o.thr, r.thr, [limit |-> r.limit, running |-> 0, qlen |-> 0])
                exp == IF r.kind = "thrAdd"
                       THEN IF prev.running >= prev.limit THEN [running |-> prev.running, qlen |-> prev.qlen + 1, go |-> FALSE]
                            ELSE [running |-> prev.running + 1, qlen |-> prev.qlen, go |-> TRUE]
                       ELSE IF prev.qlen = 0 THEN [running |-> prev.running - 1, qlen |-> 0, go |-> FALSE]
                            ELSE [running |-> prev.running, qlen |-> prev.qlen - 1, go |-> TRUE]
                went == IF r.kind = "thrAdd" THEN r.started ELSE r.next
                vs == (IF r.running > r.limit THEN {V("C19", "throttle " \o r.thr \o ": " \o ToString(r.running) \o " governed requests outstanding, limit " \o ToString(r.limit), "")} ELSE {})
                      \cup (IF r.qlen > 0 /\ r.running < r.limit THEN {V("C19", "throttle " \o r.thr \o ": requests wait although only " \o ToString(r.running) \o " of " \o ToString(r.limit) \o " are outstanding", "")} ELSE {})
                      \cup (IF r.running # exp.running \/ r.qlen # exp.qlen \/ went # exp.go
                            THEN {V("C19", "throttle " \o r.thr \o ": " \o r.kind \o " left " \o ToString(<<r.running, r.qlen, went>>) \o ", Throttle.tla says " \o ToString(<<exp.running, exp.qlen, exp.go>>), "")} ELSE {})
                \* C19: the references of one subscription - also those that events add after it has been loaded - are fetched
                \* under one throttle: a throttle not seen before needs a client request (one root subscription each) or a
                \* system reset that has not been given one yet
                fresh == r.kind = "thrAdd" /\ r.thr \notin DOMAIN o.thr
                nw == IF fresh THEN o.thrNew + 1 ELSE o.thrNew
                vb == IF fresh /\ nw > o.thrBudget
                      THEN {V("C19", "throttle " \o r.thr \o " is the " \o ToString(nw) \o ". one created, but only " \o ToString(o.thrBudget) \o " client requests and system resets could have made one: requests escape the limit of the throttle they belong to", "")}
                      ELSE {}
            IN Res([o EXCEPT !.thr = Put(o.thr, r.thr, [limit |-> r.limit, running |-> r.running, qlen |-> r.qlen]), !.thrNew = nw], vs \cup vb)
      [] r.kind = "resetres" ->
            \* the resource object that starts the re-fetch is remembered for the get request that follows (one re-fetch at a
            \* time per object is checked by ResSubTrace)
            Res([o EXCEPT !.refetch = Put(o.refetch, r.key, Get(o.refetch, r.key, 0) + 1),
                          !.refRp = IF "rp" \in DOMAIN r THEN Put(@, r.key, Append(Get(@, r.key, <<>>), r.rp)) ELSE @],
                IF "matched" \in DOMAIN r /\ ~r.matched
                THEN {V("C12", "re-fetch of " \o r.key \o " although no system reset lists a pattern matching its name", "")} ELSE {})
      [] r.kind \in CENotes /\ ~o.hadStop /\ o.stop.l = 0 ->
            \* C09: the cache entry follows CacheEntry.tla in every critical section
            LET st == CEStep(Get(o.ce, r.n, CENew), r)
                \* an evicted entry takes the state of its resources with it (a later entry of the name starts afresh)
                rst2 == IF r.kind = "cacheEvict" /\ r.done THEN [k \in {x \in DOMAIN o.rst : o.rst[x].n # r.n} |-> o.rst[k]] ELSE o.rst
                \* mqUnsubscribe drops what was still queued on the evicted entry (service events for a resource nobody uses)
                \* C11: which connections are registered as subscribers of which cached resource
                KeyStr(n, q) == IF q = "" THEN n ELSE n \o "?" \o q
                RemOne(sq, c) == IF \E i \in DOMAIN sq : sq[i] = c
                                 THEN LET i0 == CHOOSE i \in DOMAIN sq : sq[i] = c IN [j \in 1..(Len(sq) - 1) |-> IF j < i0 THEN sq[j] ELSE sq[j + 1]]
                                 ELSE sq
                \* resource objects whose re-fetch answers the gateway drops: the initial get failed, or - an alias whose initial
                \* answer named another normalised query - the object became a link to the resource of that query (loaded from
                \* an answer that was published after the reset; the alias itself holds no content to bring up to date)
                dead2 == IF r.kind = "cacheGetErr" /\ "rp" \in DOMAIN r THEN o.deadRp \cup {r.rp}
                         ELSE IF r.kind = "cacheLink"
                              THEN o.deadRp \cup SeqToSet(Get(o.refRp, r.key, <<>>))
                                            \cup {o.mqpend[k].rp : k \in {j \in DOMAIN o.mqpend : o.mqpend[j].refetch /\ o.mqpend[j].key = r.key}}
                         ELSE o.deadRp
                cs2 == CASE r.kind = "cacheAddSub" /\ r.state # 1 -> Put(o.csub, r.key, Append(Get(o.csub, r.key, <<>>), r.c))
                         [] r.kind = "cacheUnsub" /\ r.removed /\ "c" \in DOMAIN r -> Put(o.csub, r.key, RemOne(Get(o.csub, r.key, <<>>), r.c))
                         [] r.kind \in {"cacheDelete", "cacheGetErr"} -> Put(o.csub, r.key, <<>>)
                         [] r.kind = "cacheLink" -> Put(Put(o.csub, KeyStr(r.n, r.to), Get(o.csub, KeyStr(r.n, r.to), <<>>) \o Get(o.csub, r.key, <<>>)), r.key, <<>>)
                         [] r.kind = "cacheEvict" /\ r.done -> [k \in {x \in DOMAIN o.csub : Get(o.keyn, x, x) # r.n /\ x # r.n} |-> o.csub[k]]
                         [] OTHER -> o.csub
                rq2 == IF r.kind = "cacheEvict" /\ r.done /\ "ep" \in DOMAIN r /\ r.ep \in DOMAIN o.rq
                       THEN Put(o.rq, r.ep, [o.rq[r.ep] EXCEPT !.x = [@ EXCEPT !.ql = 0]]) ELSE o.rq
            IN Res([o EXCEPT !.ce = Put(@, r.n, st.x), !.rst = rst2, !.rq = rq2, !.csub = cs2, !.deadRp = dead2], {V("C09", "cache entry " \o Short(r.n) \o ": " \o m, "") : m \in st.errs})
      [] r.kind \in RQNotes /\ "ep" \in DOMAIN r /\ ~o.hadStop /\ o.stop.l = 0 ->
            \* C13 / C15: the resource's work queue and its query-event lock follow ResQueue.tla (per entry object:
            \* an evicted entry's worker may still run after a new entry of the same name exists)
            LET st == RQStep(Get(o.rq, r.ep, [x |-> RQNew]).x, r)
            IN Res([o EXCEPT !.rq = Put(@, r.ep, [x |-> st.x, n |-> r.n])], {V(e.p, "work queue of " \o Short(r.n) \o ": " \o e.m, "") : e \in st.errs})
      [] OTHER -> Res(o, {})

(* C03 / C12: a cached resource passes events on as ResSub.tla says *)
H_note2(r) ==
    LET b == H_note0(r)
    IN IF r.kind \in RSTNotes /\ "rp" \in DOMAIN r /\ ~o.hadStop /\ o.stop.l = 0
       THEN LET st == RSTStep(Get(o.rst, r.rp, [x |-> RSTNew]).x, r)   \* per resource object: a failed one is replaced by a new one of the same key
            IN Res([b.o EXCEPT !.rst = Put(@, r.rp, [x |-> st.x, key |-> r.key, n |-> r.n])],
                   b.v \cup {V(e.p, "cached resource " \o Short(r.key) \o ": " \o e.m, "") : e \in st.errs})
       ELSE b

(* C05 / C04: a subscription's access cache follows SubAccess.tla *)
H_note1(r) ==
    LET b == H_note2(r)
    IN IF r.kind \in SATNotes /\ "sp" \in DOMAIN r /\ ~o.hadStop /\ o.stop.l = 0
       THEN LET st == SATStep(Get(o.sa, r.sp, SATNew), r)
            IN Res([b.o EXCEPT !.sa = Put(@, r.sp, st.x)],
                   b.v \cup {V("C05", "subscription " \o Short(r.rid) \o " of " \o r.c \o ": " \o m, "") : m \in st.errs})
       ELSE b

(* C03 / C06: every step of a subscription's event queue follows SubQueueOps *)
H_note3(r) ==
    LET b == H_note1(r)
    IN IF r.kind \in SQTNotes /\ "sp" \in DOMAIN r /\ ~o.hadStop /\ o.stop.l = 0
       THEN LET st == SQTStep(Get(o.sq, r.sp, [x |-> SQTNew]).x, r)
            IN Res([b.o EXCEPT !.sq = Put(@, r.sp, [x |-> st.x, c |-> r.c, rid |-> r.rid])],
                   b.v \cup {V(e.p, "subscription " \o Short(r.rid) \o " of " \o r.c \o ": " \o e.m, "") : e \in st.errs})
       ELSE b

(* C07 / C02: readiness of a subscription and of everything it refers to follows SubReadyOps (per connection object ck; *)
(* srOf: connection symbol -> its latest connection object)                                                            *)
H_note4(r) ==
    LET b == H_note3(r)
    IN IF r.kind \in SRTNotes /\ "sp" \in DOMAIN r /\ "ck" \in DOMAIN r /\ ~o.hadStop /\ o.stop.l = 0
       THEN LET st == SRTStep(Get(b.o.sr, r.ck, SRTNew), r)
            IN Res([b.o EXCEPT !.sr = Put(@, r.ck, st.x), !.srOf = Put(@, r.c, MaxI(Get(@, r.c, 0), r.ck))],
                   b.v \cup {V(e.p, "subscription " \o Short(r.rid) \o " of " \o r.c \o ": " \o e.m, e.kf) : e \in st.errs})
       ELSE b

(* C11 / C15: the connection's work queue follows ConnQueue.tla (per connection object; also while the service stops) *)
H_note(r) ==
    LET b == H_note4(r)
    IN IF r.kind \in CQTNotes /\ "ck" \in DOMAIN r
       THEN LET st == CQTStep(Get(b.o.cq, r.ck, [x |-> CQTNew]).x, r)
            IN Res([b.o EXCEPT !.cq = Put(@, r.ck, [x |-> st.x, c |-> r.c])],
                   b.v \cup {V(e.p, "work queue of connection " \o r.c \o ": " \o e.m, "") : e \in st.errs})
       ELSE b

-----------------------------------------------------------------------------
H_msub(r) ==
    Res([o EXCEPT !.mqsubs = @ \cup {r.ns}],
        (IF r.bad THEN {V("C14", "subscription on malformed subject " \o r.ns, "")} ELSE {})
        \* C20: no client connection is set up once a Stop / connection loss is being handled or the service is stopped
        \cup (IF r.kind = "conn" /\ (o.stop.l > 0 \/ o.down) THEN {V("C20", "a client connection was set up (" \o r.ns \o ") while the service is stopping or stopped", "")} ELSE {})
        \cup (IF r.dup THEN {V("C09", "second subscription on " \o r.ns \o " while one exists", "")} ELSE {}))

H_munsub(r) ==
    LET o1 == [o EXCEPT !.mqsubs = @ \ {r.ns}]
    IN CASE r.kind = "event" ->
               Res([o1 EXCEPT !.ann = [k \in DOMAIN o.ann |-> IF Get(o.keyn, k, "") = r.n THEN Unloaded ELSE o.ann[k]],
                              !.window = {k \in o.window : Get(o.keyn, k, "") # r.n},
                              !.resetObl = {x \in @ : Get(o.keyn, x.key, x.key) # r.n /\ x.key # r.n}],
                   {})
         [] r.kind = "conn" /\ r.c \in DOMAIN o.conns ->
               Res(SetConn(o1, r.c, [o.conns[r.c] EXCEPT !.gone = TRUE, !.alive = FALSE]), {})
         [] OTHER -> Res(o1, {})

-----------------------------------------------------------------------------
(* C13: per query event (identified by its subject) the cached normalised queries of the resource at hand-over *)
QSubscribed(k) == \E c \in DOMAIN o.conns : o.conns[c].alive /\
                     \E rid \in Held(o.conns[c].direct, o.conns[c].res) : Get(o.norm, KeyOf(o.conns[c], rid), KeyOf(o.conns[c], rid)) = k
QCached(n) == {k \in DOMAIN o.ann : Get(o.keyn, k, "") = n /\ Get(o.keyq, k, "") # "" /\ o.ann[k].st = "ld"}

ConnBound(t) == t \in {"access", "call", "auth"}

H_mreq(r) ==
    LET badV == IF r.bad THEN {V("C14", "request on malformed subject " \o r.subj, "")} ELSE {}
        known == r.c \in DOMAIN o.conns
        \* C10: a {cid} tag of the client's resource id - in the name or in the query - reaches services expanded
        tagV == IF "rawcid" \in DOMAIN r /\ r.rawcid THEN {V("C10", "request " \o r.subj \o " (query \"" \o r.q \o "\") carries an unexpanded {cid} tag", "")} ELSE {}
        cidV == IF ConnBound(r.t) /\ ~known THEN {V("C10", r.t \o " request " \o r.subj \o " carries a connection id of no connection", "")} ELSE {}
        \* finding KF-X: a re-check parked in a reset throttle when its subscription was disposed
        goneV == IF ConnBound(r.t) /\ known /\ o.conns[r.c].gone
                 THEN {V("C11", r.t \o " request " \o r.subj \o " on behalf of closed connection " \o r.c,
                         IF r.t = "access" /\ r.key \in o.conns[r.c].dispCalled THEN "KF-X" ELSE "")} ELSE {}
        tokV == IF ConnBound(r.t) /\ known /\ ~o.conns[r.c].http /\ r.tok # o.conns[r.c].tok
                THEN {V("C05", r.t \o " request " \o r.subj \o " carries token " \o r.tok \o " but the connection's token is " \o o.conns[r.c].tok, "")} ELSE {}
        \* a token reset reaches only connections whose current token id is listed
        tidV == IF r.t = "auth" /\ r.n = "tokenreset" /\ known
                THEN LET cl == o.conns[r.c]
                     IN IF cl.tid # "" /\ \E i \in DOMAIN o.resets : cl.tid \in SeqToSet(o.resets[i]) THEN {}
                        ELSE {V("C10", "token reset auth request for connection " \o r.c \o " whose token id \"" \o cl.tid \o "\" is not listed in any token reset", "")}
                ELSE {}
        subV == IF r.t = "get" /\ ("event." \o r.n) \notin o.mqsubs
                THEN {V("C09", "get request for " \o r.n \o " without an established event subscription", "")} ELSE {}
        callV == IF r.t = "call" /\ known
                 THEN LET cl == o.conns[r.c]
                          g == GrantOf(cl, r.key)
                          cands == {i \in DOMAIN cl.pend : cl.pend[i].key = r.key /\
                                      ((cl.pend[i].m = "new" /\ r.meth = "new") \/ (cl.pend[i].m = "call" /\ cl.pend[i].action = r.meth))}
                          CallOK(x) == CallAllowed(x.call, x.calllist, r.meth)
                          \* calls of one connection on one resource and method are forwarded in request order: the oldest
                          \* request not yet forwarded is the one this call belongs to (an older request is never judged
                          \* more strictly than a newer one, so a wrong guess cannot raise an alarm)
                          open == {i \in cands : ~cl.pend[i].fwd}
                          sts == IF cands = {} THEN {Verdict(cl, r.key, l, CallOK)}
                                 ELSE IF open = {} THEN {Verdict(cl, r.key, cl.pend[i].l, CallOK) : i \in cands}
                                 ELSE {Verdict(cl, r.key, cl.pend[CHOOSE i \in open : \A j \in open : cl.pend[i].l <= cl.pend[j].l].l, CallOK)}
                      IN IF "ok" \in sts THEN {}
                         ELSE {V("C05", "call " \o r.subj \o " forwarded without a valid grant for the method: " \o ToString(g), IF "kf" \in sts THEN "KF-R" ELSE "")}
                 ELSE {}
        isRefetch == r.t = "get" /\ Get(o.refetch, r.key, 0) > 0
        rpq == Get(o.refRp, r.key, <<>>)
        rp0 == IF isRefetch /\ rpq # <<>> THEN Head(rpq) ELSE 0
        o1 == [o EXCEPT !.mqpend = Put(o.mqpend, r.k, [t |-> r.t, n |-> r.n, key |-> r.key, c |-> r.c, refetch |-> isRefetch, l |-> l, tok |-> r.tok, rp |-> rp0]),
                        !.refetch = IF isRefetch THEN Put(o.refetch, r.key, o.refetch[r.key] - 1) ELSE o.refetch,
                        !.refRp = IF isRefetch /\ rpq # <<>> THEN Put(@, r.key, Tail(rpq)) ELSE @,
                        !.resetObl = IF r.t = "get" THEN {x \in @ : x.key # r.key} ELSE @]
        \* an access request answers a pending re-check of this connection
        o2 == IF r.t = "access" /\ known
              THEN LET cl == o.conns[r.c]
                       rc2 == [rid \in DOMAIN cl.recheck |->
                                  IF KeyOf(cl, rid) = r.key /\ cl.recheck[rid].k = 0 THEN [cl.recheck[rid] EXCEPT !.k = r.k] ELSE cl.recheck[rid]]
                       rechk == \E rid \in DOMAIN cl.recheck : KeyOf(cl, rid) = r.key /\ cl.recheck[rid].k = 0
                   IN SetConn(o1, r.c, [cl EXCEPT !.recheck = rc2, !.lastAcc = Put(@, r.key, [l |-> l, rechk |-> rechk]),
                                                  !.dispCalled = IF cl.gone THEN @ \ {r.key} ELSE @])
              ELSE o1
        isQ == r.t = "query" /\ r.subj \in DOMAIN o.qev
        qe == IF isQ THEN o.qev[r.subj] ELSE [n |-> "", l |-> 0, loaded |-> {}, must |-> {}, got |-> {}, open |-> {}]
        qV == IF ~isQ THEN {}
              ELSE (IF r.key \in qe.got THEN {V("C13", "second query request for " \o r.key \o " on one query event", "")} ELSE {})
                   \cup (IF r.key \notin qe.loaded /\ r.key \notin QCached(qe.n)
                         THEN {V("C13", "query request for " \o r.key \o " which is not a cached query of the resource", "")} ELSE {})
        o3 == IF isQ THEN [o2 EXCEPT !.qev = Put(o2.qev, r.subj, [qe EXCEPT !.got = @ \cup {r.key}, !.open = @ \cup {r.k}])] ELSE o2
        o4 == IF r.t = "call" /\ known
              THEN LET cl == o3.conns[r.c]
                       open == {i \in DOMAIN cl.pend : ~cl.pend[i].fwd /\ cl.pend[i].key = r.key /\
                                  ((cl.pend[i].m = "new" /\ r.meth = "new") \/ (cl.pend[i].m = "call" /\ cl.pend[i].action = r.meth))}
                   IN IF open = {} THEN o3
                      ELSE LET i0 == CHOOSE i \in open : \A j \in open : cl.pend[i].l <= cl.pend[j].l
                           IN SetConn(o3, r.c, [cl EXCEPT !.pend = Put(@, i0, [@[i0] EXCEPT !.fwd = TRUE])])
              ELSE o3
    IN Res(o4, badV \cup tagV \cup cidV \cup goneV \cup tokV \cup subV \cup callV \cup tidV \cup qV)

-----------------------------------------------------------------------------
Content(r) == IF r.kind = "m" THEN Model(r.val) ELSE Coll(r.list)

AnnGet(a, r, refetch) ==
    CASE r.kind \in {"m", "c"} ->
            \* the answer of a re-fetch is compared with loaded content only: it does not load a resource whose initial
            \* get is still outstanding or has failed
            IF refetch /\ a.st # "ld" THEN a
            ELSE IF a.st # "ld" THEN [st |-> "ld", cands |-> {Content(r)}]
            ELSE IF \E e \in a.cands : e.k # r.kind THEN a
            ELSE IF refetch THEN [st |-> "ld", cands |-> {Content(r)}]
            ELSE [st |-> "ld", cands |-> a.cands \cup {Content(r)}]
      [] r.kind = "error" /\ r.code = "system.notFound" /\ refetch /\ a.st = "ld" -> [st |-> "del", cands |-> {}]
      [] OTHER -> a

AnnQuery(a, r) ==
    IF a.st # "ld" THEN a
    ELSE CASE r.kind = "events" -> [a EXCEPT !.cands = {AnnApplySeq(e, r.events) : e \in a.cands}]
           [] r.kind \in {"m", "c"} -> IF \E e \in a.cands : e.k # r.kind THEN a ELSE [st |-> "ld", cands |-> {Content(r)}]
           [] r.kind = "error" /\ r.code = "system.notFound" -> [st |-> "del", cands |-> {}]
           [] OTHER -> a

H_mres(r) ==
    IF r.k \notin DOMAIN o.mqpend THEN Res(o, {V("C18", "harness answered an unknown request", "")})
    ELSE
    LET req == o.mqpend[r.k]
        o1 == [o EXCEPT !.mqpend = Del(o.mqpend, r.k)]
    IN CASE r.t = "get" ->
              LET \* the answer to a re-fetch started by a resource object whose initial get failed meanwhile is dropped by the
                  \* gateway (a new object may serve the key by now): it announces nothing
                  deadRef == req.refetch /\ req.rp \in o.deadRp
                  a2 == IF deadRef THEN AnnOf(o.ann, r.nkey) ELSE AnnGet(AnnOf(o.ann, r.nkey), r, req.refetch)
                  \* only a resource answer tells the normalized query; an error answer (e.g. to a re-fetch of the
                  \* un-normalized query issued before the first answer arrived) leaves the mapping alone
                  isRes == r.kind \in {"m", "c"}
              IN Res([o1 EXCEPT !.ann = Put(o.ann, r.nkey, a2),
                                !.norm = IF isRes THEN Put(o.norm, r.key, r.nkey) ELSE @,
                                !.keyn = IF isRes \/ r.nkey \notin DOMAIN @ THEN Put(o.keyn, r.nkey, r.n) ELSE @,
                                !.keyq = IF isRes \/ r.nkey \notin DOMAIN @ THEN Put(o.keyq, r.nkey, r.nq) ELSE @,
                                !.window = IF req.refetch THEN @ \ {r.nkey} ELSE @,
                                \* an initial load answered after a query event arrived: the query was not (continuously) cached for it
                                !.qev = IF req.refetch THEN @ ELSE [sj \in DOMAIN o.qev |-> [o.qev[sj] EXCEPT !.must = @ \ {r.nkey, r.key}]]], {})
         [] r.t = "query" ->
              Res([o1 EXCEPT !.ann = Put(o.ann, r.key, AnnQuery(AnnOf(o.ann, r.key), r)),
                             \* a query whose resource this answer deletes is no longer cached for the query events still waiting
                             !.qev = [sj \in DOMAIN o.qev |-> [o.qev[sj] EXCEPT !.open = @ \ {r.k},
                                                                                !.must = IF AnnQuery(AnnOf(o.ann, r.key), r).st = "del" THEN @ \ {r.key} ELSE @]]], {})
         [] r.t = "access" /\ r.c \in DOMAIN o.conns ->
              LET cl == o.conns[r.c]
                  ok == r.kind = "access"
                  g == [get |-> r.get, call |-> r.call, calllist |-> r.calllist, ok |-> ok, l |-> l, rl |-> req.l, tok |-> req.tok, inv |-> 0, dis |-> 0, none |-> FALSE]
                  hit == {rid \in DOMAIN cl.recheck : cl.recheck[rid].k = r.k}
                  hitOld == {rid \in DOMAIN cl.recheck : cl.recheck[rid].k = 0 /\ cl.recheck[rid].old = r.k}
                  code == IF ok THEN "system.accessDenied" ELSE r.code
                  \* a refusal owes an unsubscribe - unless the gateway asks again (a request sent after the refused one, e.g.
                  \* because a further trigger made it discard the answer for the re-check) and is granted then
                  owed2 == IF ok /\ r.get THEN [rid \in {x \in DOMAIN cl.owed : KeyOf(cl, x) # r.key} |-> cl.owed[rid]]
                           ELSE [rid \in hit |-> code] @@ cl.owed
              IN Res(SetConn(o1, r.c, [cl EXCEPT !.grant = Put(cl.grant, r.key, Append(GrantsOf(cl, r.key), g)),
                                                 !.recheck = [rid \in DOMAIN cl.recheck \ hit |->
                                                                 IF rid \in hitOld THEN [cl.recheck[rid] EXCEPT !.l = 1000000000] ELSE cl.recheck[rid]],
                                                 !.owed = owed2]), {})
         [] OTHER -> Res(o1, {})

-----------------------------------------------------------------------------
H_mevt(r) ==
    CASE r.bad -> Res(o, {})   \* a malformed / inapplicable message announces nothing (C15: discarded as a whole)
      [] r.ns = "event" /\ r.ev = "query" ->
            Res([o EXCEPT !.qev = Put(o.qev, r.subject, [n |-> r.n, l |-> l, loaded |-> QCached(r.n),
                                                         must |-> {k \in QCached(r.n) : QSubscribed(k)}, got |-> {}, open |-> {}])], {})
      [] r.ns = "event" ->
            LET a == AnnOf(o.ann, r.n)
                a2 == IF a.st # "ld" THEN a
                      ELSE IF r.ev = "delete" THEN [st |-> "del", cands |-> {}]
                      ELSE [a EXCEPT !.cands = {AnnApply(e, r) : e \in a.cands}]
                h2 == IF r.seq > 0
                      THEN Put(o.handed, r.n, Append(HandedOf(r.n), [seq |-> r.seq, l |-> l, sup |-> (r.ev = "change" /\ r.n \in o.window)]))
                      ELSE o.handed
                ct2 == IF r.ev = "reaccess" THEN Put(o.ctrig, "event:" \o r.n, Append(Get(o.ctrig, "event:" \o r.n, <<>>), l)) ELSE o.ctrig
            IN Res([o EXCEPT !.ann = IF r.n \in DOMAIN o.ann THEN Put(o.ann, r.n, a2) ELSE o.ann, !.handed = h2, !.ctrig = ct2], {})
      [] r.ns = "system" /\ r.ev = "reset" ->
            LET hit == {k \in DOMAIN o.ann : o.ann[k].st = "ld" /\ Get(o.keyn, k, "") \in SeqToSet(r.matchres)}
                \* C12: every matching cached resource (loaded, or with its first get still outstanding) must be
                \* re-fetched by a get request sent after this reset, unless a re-fetch of it is outstanding already
                pendInit == {o.mqpend[x].key : x \in {y \in DOMAIN o.mqpend : o.mqpend[y].t = "get" /\ ~o.mqpend[y].refetch
                                                                             /\ o.mqpend[y].n \in SeqToSet(r.matchres)}}
                \* a query resource is dropped from the cache as soon as its last subscriber leaves
                subscribed(k) == \E c \in DOMAIN o.conns : o.conns[c].alive /\
                                    \E rid \in Held(o.conns[c].direct, o.conns[c].res) : Get(o.norm, KeyOf(o.conns[c], rid), KeyOf(o.conns[c], rid)) = k
                cached == {k \in hit \ o.window : Get(o.keyq, k, "") = "" \/ subscribed(k)}
                \* a re-fetch that is still unanswered serves this reset as well
                refPend == {o.mqpend[x].key : x \in {y \in DOMAIN o.mqpend : o.mqpend[y].t = "get" /\ o.mqpend[y].refetch}}
                obl == {[key |-> k, l |-> l] : k \in (cached \cup pendInit) \ refPend}
                ct2 == [n \in DOMAIN o.ctrig \cup SeqToSet(r.matchacc) |->
                           IF n \in SeqToSet(r.matchacc) THEN Append(Get(o.ctrig, n, <<>>), l) ELSE o.ctrig[n]]
            IN Res([o EXCEPT !.window = @ \cup hit, !.ctrig = ct2, !.resetObl = @ \cup obl, !.thrBudget = @ + 1], {})
      [] r.ns = "system" /\ r.ev = "tokenReset" ->
            Res([o EXCEPT !.resets = Append(@, r.tids)], {})
      [] r.ns = "conn" /\ r.ev = "token" /\ r.c \in DOMAIN o.conns /\ ~r.bad ->
            Res(SetConn(o, r.c, [o.conns[r.c] EXCEPT !.tokq = Append(@, [tok |-> r.tok, l |-> l, tid |-> r.tid])]), {})
      [] OTHER -> Res(o, {})

-----------------------------------------------------------------------------
(* Quiescence: every request answered, all queues drained.                  *)

C01Viol(c, q) ==
    LET cl == o.conns[c]
        H == Held(cl.direct, cl.res)
        snap == Get(q.subs, c, <<>>)
        \* finding KF-H (as in C03EndViol): an unsubscribe was answered against an in-flight count, so the reference client
        \* counts a direct subscription the gateway no longer has; what it holds through that root is no longer kept current
        offH == \E r \in Roots(cl.direct) : (r \in DOMAIN cl.dispW \/ r \in cl.hUnsub) /\ Get(cl.nsub, r, 0) # (IF r \in DOMAIN snap THEN snap[r].direct ELSE 0)
    IN UNION {
        LET e == cl.res[rid]
            k == KeyOf(cl, rid)
            nk == Get(o.norm, k, k)
            a == AnnOf(o.ann, nk)
            \* KF-U, second part: a resource that was marked unsent (rightly or not) is re-sent with the snapshot taken when
            \* it was loaded - the subscription's copy is not updated by events
            kf == IF cl.taintU \/ rid \in cl.unsent THEN "KF-U" ELSE IF cl.taintG THEN "KF-G" ELSE IF cl.taintW THEN "KF-W"
                  ELSE IF offH /\ rid \notin DOMAIN snap THEN "KF-H" ELSE ""
        IN IF e.k \notin {"m", "c"} \/ rid \in cl.exempt THEN {}
           \* deleted by the service (delete event, or a not-found answer to a re-fetch or a query request): every client that
           \* holds the resource is sent a delete event (it marks the copy exempt above)
           ELSE IF a.st = "del" THEN {V("C01", "client " \o c \o " holds " \o rid \o " although the service has deleted it, and was never sent a delete event", kf)}
           ELSE IF a.st = "un" THEN {V("C01", "client " \o c \o " holds " \o rid \o " but the gateway no longer tracks it (no subscription / never announced)", kf)}
           ELSE IF \E x \in a.cands : Encode(x, cl.lg) = e THEN {}
           ELSE {V("C01", "client " \o c \o " copy of " \o rid \o " = " \o ToString(e) \o " differs from the announced state " \o ToString(a.cands), kf)}
        : rid \in H \cap DOMAIN cl.res }

C07Viol(c) ==
    LET cl == o.conns[c]
    IN { V("C07", "request " \o ToString(i) \o " (" \o cl.pend[i].m \o " " \o cl.pend[i].rid \o ") of " \o c \o " was never answered",
           IF (cl.pend[i].rid \in DOMAIN cl.dispW /\ cl.dispW[cl.pend[i].rid] > cl.pend[i].l)
              \/ (cl.pend[i].m \in {"call", "auth", "new"} /\ \E x \in DOMAIN cl.dispW : cl.dispW[x] > cl.pend[i].l) THEN "KF-H" ELSE "")
         : i \in DOMAIN cl.pend }

C08Viol(c, q) ==
    LET cl == o.conns[c]
        snap == Get(q.subs, c, <<>>)
        rids == DOMAIN cl.nsub \cup DOMAIN snap
    IN UNION {
        LET have == IF rid \in DOMAIN snap THEN snap[rid].direct ELSE 0
            want == Get(cl.nsub, rid, 0)
        IN IF have = want THEN {}
           ELSE {V("C08", "connection " \o c \o " holds " \o ToString(have) \o " direct subscriptions on " \o rid \o ", responses account for " \o ToString(want),
                   IF rid \in DOMAIN cl.dispW \/ rid \in cl.hUnsub THEN "KF-H" ELSE "")}
        : rid \in rids }

C03EndViol(c, q) ==
    LET cl == o.conns[c]
        H == Held(cl.direct, cl.res)
        snap == Get(q.subs, c, <<>>)
        \* finding KF-H: an unsubscribe was answered against an in-flight count, so the client believes in a direct
        \* subscription the gateway no longer has; what it holds through that root is no longer served
        offH == \E r \in Roots(cl.direct) : (r \in DOMAIN cl.dispW \/ r \in cl.hUnsub) /\ Get(cl.nsub, r, 0) # (IF r \in DOMAIN snap THEN snap[r].direct ELSE 0)
    IN UNION {
        LET p == cl.per[rid]
            n == NameOf(cl, rid)
            after == {h \in SeqToSet(HandedOf(n)) : ~h.sup /\ h.l > p.start}
            lo == IF p.last > 0 THEN p.last ELSE 0
            missing == {h.seq : h \in {x \in after : x.seq > lo}}
        IN IF QueryOf(cl, rid) # "" \/ rid \in cl.exempt \/ cl.res[rid].k = "e" \/ missing = {} THEN {}
           ELSE {V("C03", "client " \o c \o " holds " \o rid \o " but never received events " \o ToString(missing), IF cl.taintU THEN "KF-U" ELSE IF cl.taintG THEN "KF-G" ELSE IF cl.taintW THEN "KF-W" ELSE IF offH /\ rid \notin DOMAIN snap THEN "KF-H" ELSE "")}
        : rid \in H \cap DOMAIN cl.per \cap DOMAIN cl.res }

C06EndViol(c, q) ==
    LET cl == o.conns[c]
        snap == Get(q.subs, c, <<>>)
    IN { V("C06", "re-check for " \o rid \o " on " \o c \o " did not ask the service again after the trigger"
                  \o (IF cl.recheck[rid].old > 0 THEN " (served by an access request sent before it)" ELSE ""),
           IF cl.recheck[rid].old > 0 THEN "KF-R" ELSE "")
         : rid \in {x \in DOMAIN cl.recheck : cl.recheck[x].k = 0 /\ x \in DOMAIN snap /\ snap[x].direct > 0} }
       \cup
       { V("C06", "access for " \o rid \o " on " \o c \o " was refused (" \o cl.owed[rid] \o ") but no unsubscribe event was sent / direct subscription remains", "")
         : rid \in {x \in DOMAIN cl.owed : x \in DOMAIN snap /\ snap[x].direct > 0} }

(* after a token change on a connection that had a token, every directly    *)
(* subscribed resource must have been re-checked by a request sent after it  *)
C06TokViol(c, q) ==
    LET cl == o.conns[c]
        snap == Get(q.subs, c, <<>>)
    IN IF cl.lastTokT = 0 THEN {}
       ELSE { V("C06", "direct subscription " \o rid \o " of " \o c \o " was not re-checked by an access request sent after the connection's last token change",
                IF KeyOf(cl, rid) \in DOMAIN cl.lastAcc /\ ~cl.lastAcc[KeyOf(cl, rid)].rechk THEN "KF-R" ELSE "")
              : rid \in {x \in DOMAIN snap : snap[x].direct > 0 /\ Get(cl.lastAcc, KeyOf(cl, x), [l |-> 0]).l < cl.lastTokT} }

(* the same for the triggers routed through the cache (reaccess events, access patterns of system resets): judged at *)
(* the MQ boundary only, so it holds whether or not the gateway's reaccess notes are present                          *)
C06TrigViol(c, q) ==
    LET cl == o.conns[c]
        snap == Get(q.subs, c, <<>>)
        LastT(rid) == LET ts == TrigsOf(cl, rid) IN IF ts = {} THEN 0 ELSE CHOOSE t \in ts : \A u \in ts : u <= t
    IN { V("C06", "direct subscription " \o rid \o " of " \o c \o " was not re-checked by an access request sent after the last reaccess event / access reset for it",
            IF KeyOf(cl, rid) \in DOMAIN cl.lastAcc /\ ~cl.lastAcc[KeyOf(cl, rid)].rechk THEN "KF-R" ELSE "")
         : rid \in {x \in DOMAIN snap : snap[x].direct > 0 /\ LastT(x) > 0 /\ Get(cl.lastAcc, KeyOf(cl, x), [l |-> 0]).l < LastT(x)} }

C19QViol ==
    { V("C19", "throttle " \o t \o " still has " \o ToString(o.thr[t].qlen) \o " governed requests waiting and " \o ToString(o.thr[t].running) \o " slots taken at quiescence", "")
      : t \in {x \in DOMAIN o.thr : o.thr[x].qlen > 0 \/ o.thr[x].running > 0} }

C09QViol(q) ==
    UNION { IF q.cache[n].count = q.cache[n].subs THEN {}
            ELSE {V("C09", "cache entry " \o Short(n) \o " has use count " \o ToString(q.cache[n].count) \o " with " \o ToString(q.cache[n].subs) \o " subscribers and nothing in flight", "")}
            : n \in DOMAIN q.cache }
    \cup UNION { IF q.cache[n].locked THEN {V("C13", "resource queue of " \o n \o " still locked at quiescence", "")} ELSE {} : n \in DOMAIN q.cache }
    \cup (IF ~o.hadStop /\ (q.gsubs < 0 \/ q.gres < 0) THEN {V("C09", "negative cache gauge " \o ToString(<<q.gres, q.gsubs>>), "")} ELSE {})

C11Viol(q) ==
    { V("C11", "closed connection " \o c \o " is still registered in the gateway", "")
      : c \in {x \in DOMAIN o.conns : o.conns[x].gone /\ x \in SeqToSet(q.conns)} }

(* every connection's work queue has run out and its worker has left *)
CQEndViol == UNION {{V(e.p, "work queue of connection " \o o.cq[k].c \o ": " \o e.m, "") : e \in CQTQuiescent(o.cq[k].x)} : k \in DOMAIN o.cq}

StopPendingViol ==
    IF o.stop.l > 0 THEN {V("C20", "Stop did not complete within its bounded timeouts", "")} ELSE {}

H_quiescent(r) ==
    IF o.hadStop /\ (o.down \/ o.stop.l > 0) THEN Res(o, StopPendingViol)
    ELSE
    IF ~r.drained THEN Res(o, {V("C15", "system does not reach quiescence (stall)", "")})
    ELSE
    LET live == {c \in DOMAIN o.conns : o.conns[c].alive /\ c \in SeqToSet(r.conns)}
        o1 == [o EXCEPT !.conns = [c \in DOMAIN o.conns |-> [o.conns[c] EXCEPT !.rn = (IF c \in DOMAIN r.rn THEN r.rn[c] ELSE <<>>) @@ @]]]
    IN Res([o1 EXCEPT !.resetObl = {}, !.qev = <<>>],
           UNION {C01Viol(c, r) \cup C07Viol(c) \cup C08Viol(c, r) \cup C03EndViol(c, r) \cup C06EndViol(c, r) \cup C06TokViol(c, r) \cup C06TrigViol(c, r) : c \in live}
           \cup C09QViol(r) \cup C11Viol(r) \cup C19QViol
           \cup (IF o.hadStop THEN {} ELSE UNION {{V(e.p, "subscription " \o Short(o.sq[sp].rid) \o " of " \o o.sq[sp].c \o ": " \o e.m, "") : e \in SQTQuiescent(o.sq[sp].x)} : sp \in DOMAIN o.sq})
           \cup (IF o.hadStop THEN {} ELSE UNION {{V(e.p, "connection " \o c \o ": " \o e.m, e.kf) : e \in SRTQuiescent(o.sr[o.srOf[c]])} : c \in live \cap DOMAIN o.srOf})
           \cup CQEndViol
           \cup (IF o.hadStop THEN {} ELSE UNION {{V(e.p, "work queue of " \o Short(o.rq[ep].n) \o ": " \o e.m, "") : e \in RQQuiescent(o.rq[ep].x)} : ep \in DOMAIN o.rq})
           \cup (IF o.hadStop THEN {} ELSE UNION {{V(e.p, "cached resource " \o Short(o.rst[k].key) \o ": " \o e.m, "") : e \in RSTQuiescent(o.rst[k].x)} : k \in DOMAIN o.rst})
           \cup (IF o.hadStop THEN {}
                 ELSE UNION {{V("C11", "closed connection " \o o.csub[k][i] \o " is still registered as a subscriber of cached resource " \o Short(k), "")
                              : i \in {j \in DOMAIN o.csub[k] : o.csub[k][j] \in DOMAIN o.conns /\ ~o.conns[o.csub[k][j]].alive /\ o.csub[k][j] \notin SeqToSet(r.conns)}}
                             : k \in DOMAIN o.csub})
           \cup (IF o.hadStop THEN {} ELSE UNION {{V("C09", "cache entry " \o Short(n) \o ": " \o m, "") : m \in CEQuiescent(o.ce[n])} : n \in DOMAIN o.ce})
           \cup UNION {{V("C13", "no query request for cached query " \o k \o " on query event " \o sj, "")
                        : k \in {x \in o.qev[sj].must \ o.qev[sj].got : QSubscribed(x) /\ AnnOf(o.ann, x).st = "ld"}} : sj \in DOMAIN o.qev}
           \cup {V("C12", "cached resource " \o x.key \o " matched a system reset but was never re-fetched", "") : x \in o.resetObl})

H_final(r) ==
    IF o.hadStop THEN Res([o EXCEPT !.final = TRUE], StopPendingViol \cup CQEndViol)   \* cache and gauges are not cleaned by Stop; not judged
    ELSE
    Res([o EXCEPT !.final = TRUE],
        CQEndViol \cup
        (IF \E s \in SeqToSet(r.mqsubs) : s \notin {"system"}
         THEN {V("C09", "subscriptions left with no clients and nothing in flight: " \o ToString(r.mqsubs), "")} ELSE {})
        \cup (IF r.gres # 0 \/ r.gsubs # 0 THEN {V("C09", "cache gauges " \o ToString(<<r.gres, r.gsubs>>) \o " with no clients after the eviction delay", "")} ELSE {})
        \cup (IF DOMAIN r.cache # {} THEN {V("C09", "cache entries left: " \o ToString(DOMAIN r.cache), "")} ELSE {})
        \cup (IF r.conns # <<>> THEN {V("C11", "connections left: " \o ToString(r.conns), "")} ELSE {}))

-----------------------------------------------------------------------------
(* C20: fail-stop.  A Stop call or the loss of the messaging connection must  *)
(* close every client socket, complete within its bounded timeouts and report *)
(* the cause on the stop channel; while stopped nothing is accepted.          *)
H_stop(r) ==
    Res([o EXCEPT !.stop = [l |-> l, cause |-> r.cause, open |-> {c \in DOMAIN o.conns : o.conns[c].alive}]], {})

H_stopped(r) ==
    LET left == {c \in o.stop.open : o.conns[c].alive}
        vs == (IF o.stop.l > 0 /\ r.err # o.stop.cause
               THEN {V("C20", "stop channel reports \"" \o r.err \o "\" but the cause was \"" \o o.stop.cause \o "\"", "")} ELSE {})
              \cup (IF left # {} THEN {V("C20", "client sockets still open after the service stopped: " \o ToString(left), "")} ELSE {})
        \* everything the gateway held is gone with it
        conns2 == [c \in DOMAIN o.conns |-> [o.conns[c] EXCEPT !.alive = FALSE, !.gone = TRUE, !.pend = <<>>]]
    IN Res([o EXCEPT !.stop = [l |-> 0, cause |-> "", open |-> {}], !.down = TRUE, !.hadStop = TRUE, !.conns = conns2, !.mqsubs = {}, !.mqpend = <<>>,
                     !.ann = [k \in DOMAIN o.ann |-> Unloaded], !.window = {}, !.thr = <<>>, !.resetObl = {}], vs)

Handle(r) ==
    CASE r.e = "reset" -> Res(InitO(r.trace), {})
      [] r.e = "stop" -> H_stop(r)
      [] r.e = "stopped" -> H_stopped(r)
      \* a client that had stopped reading when the service stopped: its socket must have been closed all the same
      [] r.e = "stallprobe" ->
            IF r.open THEN Res(o, {V("C20", "the socket of client " \o r.c \o ", which was not reading, is still open after the service stopped", "")})
            ELSE IF r.c \in DOMAIN o.conns THEN Res(SetConn(o, r.c, [o.conns[r.c] EXCEPT !.alive = FALSE]), {}) ELSE Res(o, {})
      [] r.e = "stophang" -> Res(o, {V("C20", "Stop did not complete within its bounded timeouts", "")})
      [] r.e = "started" -> Res([o EXCEPT !.down = FALSE], {})
      [] r.e = "startfail" -> Res(o, {V("C20", "Start after Stop failed: " \o r.err, "")})
      [] r.e = "openRefused" -> Res(o, IF r.upgraded THEN {V("C20", "a WebSocket connection was accepted while the service is stopped", "")} ELSE {})
      [] r.e = "open" -> LET b == H_open(r)
                         IN IF o.stop.l > 0 THEN Res(b.o, b.v \cup {V("C20", "connection " \o r.c \o " accepted while Stop / connection loss handling is in progress", "")}) ELSE b
      [] r.e = "close" -> H_close(r)
      [] r.e = "sockClosed" -> H_close(r)
      [] r.e = "creq" -> H_creq(r)
      [] r.e = "cres" -> IF r.c \in DOMAIN o.conns THEN H_cres(r) ELSE Res(o, {})
      [] r.e = "cev" -> IF r.c \in DOMAIN o.conns THEN H_cev(r) ELSE Res(o, {})
      [] r.e = "note" -> H_note(r)
      [] r.e = "msub" -> H_msub(r)
      [] r.e = "munsub" -> H_munsub(r)
      [] r.e = "mreq" -> H_mreq(r)
      [] r.e = "mres" -> H_mres(r)
      [] r.e = "mevt" -> H_mevt(r)
      [] r.e = "quiescent" -> H_quiescent(r)
      [] r.e = "final" -> H_final(r)
      [] r.e = "stall" -> Res(o, {V("C15", "system does not reach quiescence (stall)", "")})
      [] r.e = "panic" -> Res(o, {V("C15", "gateway process crashed: " \o r.msg, ""), V("C20", "gateway process crashed: " \o r.msg, "")})
      [] OTHER -> Res(o, {})

(* after a frame was processed by the reference client: a resource the gateway marked unsent that the client still *)
(* holds is the miscount of finding KF-U (the connection is tainted from then on); one the client has dropped is a  *)
(* correct unsend                                                                                                    *)
SettleUnsend(oo, c) ==
    IF c \notin DOMAIN oo.conns \/ oo.conns[c].unsendPend = {} THEN oo
    ELSE LET cl == oo.conns[c]
             wrong == cl.unsendPend \cap Held(cl.direct, cl.res)
         IN SetConn(oo, c, [cl EXCEPT !.unsendPend = {}, !.taintU = @ \/ wrong # {}])

Finish(vs) ==
    /\ JsonSerialize("viol.json", SetToSeq(vs))
    /\ TLCSet(1, TRUE)

TraceInit == l = 1 /\ o = InitO("") /\ viol = {} /\ TLCSet(1, FALSE)

TraceNext ==
    /\ l <= Len(Trace)
    /\ LET res0 == Handle(Trace[l])
           res == IF Trace[l].e \in {"cres", "cev"} THEN [o |-> SettleUnsend(res0.o, Trace[l].c), v |-> res0.v] ELSE res0
       IN /\ o' = res.o
          /\ viol' = viol \cup res.v
          /\ l' = l + 1
          /\ (l = Len(Trace) => Finish(viol \cup res.v))

TraceSpec == TraceInit /\ [][TraceNext]_vars

TraceAccepted == TLCGet(1) = TRUE
=============================================================================
