------------------------------- MODULE ResEnv -------------------------------
(***************************************************************************)
(* Environment half of the gateway model: clients, services and the        *)
(* scheduler of the gateway's internal actors, over a deliberately coarse  *)
(* abstraction of the gateway (a budget of internal work and of service    *)
(* requests that client requests and service messages create).  Its        *)
(* behaviours are a superset of the real ones: a step that is not enabled  *)
(* in the real system is skipped by the adaptive executor.  TLC simulates  *)
(* this module to generate the schedules that are replayed on the real     *)
(* gateway; each step is one record of the history variable h.             *)
(***************************************************************************)
EXTENDS Integers, Sequences, FiniteSets, TLC, Json

CONSTANTS
    Conns,      \* symbolic connection ids
    Vers,       \* protocol versions a client may negotiate
    Rids,       \* resource ids clients subscribe / get / unsubscribe
    CallRids,   \* resource ids clients call
    ResRids,    \* rids a call may answer with (resource responses)
    Names,      \* resource names the services emit events on
    Keys,       \* model keys changed by events
    Vals,       \* values used by change/add events and mutations
    AccessOuts, GetOuts, CallOuts, QueryOuts,  \* answer classes
    Tokens,     \* token values
    Patterns,   \* reset patterns
    Shapes,     \* malformed / inapplicable event shapes (harness catalogue)
    BadOuts,    \* malformed response shapes ("bad:<shape>")
    Features,   \* enabled action groups
    Weights,    \* sequence of action classes; simulation draws a class uniformly from it
    MaxSteps

VARIABLES h, open, work, reqs, nx

vars == <<h, open, work, reqs, nx>>

Has(f) == f \in Features

Emit(step, dw, dr) ==
    /\ Len(h) < MaxSteps
    /\ h' = Append(h, ToJson(step))
    /\ work' = IF work + dw < 0 THEN 0 ELSE IF work + dw > 12 THEN 12 ELSE work + dw
    /\ reqs' = IF reqs + dr < 0 THEN 0 ELSE IF reqs + dr > 8 THEN 8 ELSE reqs + dr

Init == h = <<>> /\ open = {} /\ work = 0 /\ reqs = 0 /\ nx = "cli"

CliOpen(c, v) ==
    /\ c \notin open
    /\ open' = open \cup {c}
    /\ Emit([op |-> "open", c |-> c, ver |-> v], 0, 0)

CliClose(c) ==
    /\ Has("close") /\ c \in open
    /\ open' = open \ {c}
    /\ Emit([op |-> "close", c |-> c], 2, 0)

(* the client stops reading: the gateway's writes to it block until the next quiescent point, Stop or close *)
CliStall(c) ==
    /\ Has("stall") /\ c \in open /\ UNCHANGED open
    /\ Emit([op |-> "stall", c |-> c], 0, 0)

CliSubscribe(c, rid) ==
    /\ c \in open /\ UNCHANGED open
    /\ Emit([op |-> "send", c |-> c, m |-> "subscribe", rid |-> rid], 3, 2)

CliGet(c, rid) ==
    /\ Has("get") /\ c \in open /\ UNCHANGED open
    /\ Emit([op |-> "send", c |-> c, m |-> "get", rid |-> rid, solo |-> ~Has("getrace")], 3, 2)

CliUnsubscribe(c, rid) ==
    /\ Has("unsub") /\ c \in open /\ UNCHANGED open
    /\ Emit([op |-> "send", c |-> c, m |-> "unsubscribe", rid |-> rid], 2, 0)

CliUnsubscribeN(c, rid, n) ==
    /\ Has("count") /\ c \in open /\ UNCHANGED open
    /\ Emit([op |-> "send", c |-> c, m |-> "unsubscribe", rid |-> rid, count |-> n], 2, 0)

CliCall(c, rid, m, a) ==
    /\ Has("call") /\ c \in open /\ UNCHANGED open
    /\ Emit([op |-> "send", c |-> c, m |-> m, rid |-> rid, action |-> a], 3, 2)

IntStep(p) ==
    /\ work > 0 /\ UNCHANGED open
    /\ Emit([op |-> "int", pick |-> p], -1, 0)

Reply(t, p, out, arg) ==
    /\ reqs > 0 /\ UNCHANGED open
    /\ Emit([op |-> "reply", t |-> t, pick |-> p, out |-> out, arg |-> arg], 2, -1)

SvcChange(n, k, v) ==
    /\ Has("events") /\ UNCHANGED open
    /\ Emit([op |-> "event", n |-> n, ev |-> "change", k |-> k, val |-> v], 2, IF v.t = "r" THEN 1 ELSE 0)

(* one change event carrying two keys (a new reference together with a plain / soft / data value and the like) *)
SvcChange2(n, k, v, k2, v2) ==
    /\ Has("events") /\ k # k2 /\ UNCHANGED open
    /\ Emit([op |-> "event", n |-> n, ev |-> "change", k |-> k, val |-> v, more |-> (k2 :> v2)], 2, IF v.t = "r" \/ v2.t = "r" THEN 1 ELSE 0)

(* a change event that repeats the value key k already has: nothing changes *)
SvcChangeNoop(n, k) ==
    /\ Has("events") /\ UNCHANGED open
    /\ Emit([op |-> "event", n |-> n, ev |-> "change", k |-> k, noop |-> TRUE], 1, 0)

SvcAdd(n, a, v) ==
    /\ Has("events") /\ UNCHANGED open
    /\ Emit([op |-> "event", n |-> n, ev |-> "add", a |-> a, val |-> v], 2, IF v.t = "r" THEN 1 ELSE 0)

SvcRemove(n, a) ==
    /\ Has("events") /\ UNCHANGED open
    /\ Emit([op |-> "event", n |-> n, ev |-> "remove", a |-> a], 2, 0)

SvcCustom(n) ==
    /\ Has("custom") /\ UNCHANGED open
    /\ Emit([op |-> "event", n |-> n, ev |-> "custom"], 2, 0)

SvcDelete(n) ==
    /\ Has("delete") /\ UNCHANGED open
    /\ Emit([op |-> "event", n |-> n, ev |-> "delete"], 2, 0)

SvcReaccess(n) ==
    /\ Has("reaccess") /\ UNCHANGED open
    /\ Emit([op |-> "event", n |-> n, ev |-> "reaccess"], 2, 1)

SvcQuery(n) ==
    /\ Has("query") /\ UNCHANGED open
    /\ Emit([op |-> "event", n |-> n, ev |-> "query"], 2, 2)

SvcMutate(n, a, k, v) ==
    /\ Has("mutate") /\ UNCHANGED open
    /\ Emit([op |-> "mutate", n |-> n, a |-> a, k |-> k, val |-> v], 0, 0)

SvcReset(res, acc) ==
    /\ Has("reset") /\ UNCHANGED open
    /\ Emit([op |-> "reset", res |-> res, acc |-> acc], 3, 2)

SvcToken(c, tok, tid) ==
    /\ Has("token") /\ c \in open /\ UNCHANGED open
    /\ Emit([op |-> "token", c |-> c, tok |-> tok, tid |-> tid], 2, 1)

SvcTokenReset(tids) ==
    /\ Has("tokenreset") /\ UNCHANGED open
    /\ Emit([op |-> "tokenreset", tids |-> tids], 1, 1)

Time(ms) ==
    /\ Has("time") /\ UNCHANGED open
    /\ Emit([op |-> "time", ms |-> ms], 1, 0)

SvcInject(n, shape) ==
    /\ Has("inject") /\ UNCHANGED open
    /\ Emit([op |-> "inject", n |-> n, shape |-> shape], 1, 0)

(* Stop / loss of the messaging connection.  drain = what the messaging client still holds in its receive buffer *)
(* and hands over while it is being closed (the NATS adapter's Close drains its channel before it returns): a    *)
(* custom event and / or the answer to the oldest outstanding request.                                            *)
SvcStop(kind, drain) ==
    /\ Has("stop") /\ UNCHANGED open
    /\ Emit(IF drain = <<>> THEN [op |-> kind] ELSE [op |-> kind, drain |-> drain], 0, 0)

Drains == {<<>>} \cup {<<[op |-> "event", n |-> n, ev |-> "custom"]>> : n \in Names}
                 \cup {<<[op |-> "reply", t |-> "", pick |-> 0]>>}
                 \cup {<<[op |-> "event", n |-> n, ev |-> "custom"], [op |-> "reply", t |-> "", pick |-> 0]>> : n \in Names}

Quiesce ==
    /\ Has("quiesce") /\ UNCHANGED open
    /\ Emit([op |-> "quiescent"], -12, -8)

NextC(cls) ==
    CASE cls = "int" -> \E p \in 0..3 : IntStep(p)
      [] cls = "reply" ->
            \/ \E p \in 0..1, out \in GetOuts : Reply("get", p, out, "")
            \/ \E p \in 0..1, out \in AccessOuts : Reply("access", p, out, "")
            \/ \E p \in 0..1, out \in CallOuts : \E rr \in ResRids : Reply("call", p, out, rr) \/ Reply("auth", p, out, rr)
            \/ \E p \in 0..1, out \in QueryOuts : Reply("query", p, out, "")
            \/ \E p \in 0..1 : Reply("", p, "ok", "")
            \/ \E p \in 0..1, out \in BadOuts : Has("inject") /\ Reply("", p, out, "")
      [] cls = "cli" ->
            \/ \E c \in Conns, v \in Vers : CliOpen(c, v)
            \/ \E c \in Conns, r \in Rids : CliSubscribe(c, r) \/ CliGet(c, r) \/ CliUnsubscribe(c, r)
            \/ \E c \in Conns, r \in Rids, n \in {0, 2, 3} : CliUnsubscribeN(c, r, n)
            \/ \E c \in Conns : CliStall(c)
            \/ \E c \in Conns, r \in CallRids, m \in {"call", "auth", "new"} : CliCall(c, r, m, IF m = "new" THEN "" ELSE "a")
      [] cls = "svc" ->
            \/ \E n \in Names, k \in Keys, v \in Vals : SvcChange(n, k, v)
            \/ \E n \in Names, k \in Keys, v \in Vals, k2 \in Keys, v2 \in Vals : SvcChange2(n, k, v, k2, v2)
            \/ \E n \in Names, k \in Keys : SvcChangeNoop(n, k)
            \/ \E n \in Names, a \in 0..2, v \in Vals \ {[t |-> "x", v |-> ""]} : SvcAdd(n, a, v)
            \/ \E n \in Names, a \in 0..2 : SvcRemove(n, a)
            \/ \E n \in Names : SvcCustom(n)
            \/ \E n \in Names, sh \in Shapes : SvcInject(n, sh)
      [] cls = "trig" ->
            \/ \E n \in Names : SvcDelete(n) \/ SvcReaccess(n) \/ SvcQuery(n)
            \/ \E n \in Names, a \in 0..1, k \in Keys, v \in Vals : SvcMutate(n, a, k, v)
            \/ \E res \in Patterns, acc \in Patterns : SvcReset(res, acc)
            \/ \E c \in Conns, t \in Tokens, tid \in {"tid1", "tid2", ""} : SvcToken(c, t, tid)
            \/ \E tids \in {<<"tid1">>, <<"tid2">>, <<"tid1", "tid2">>, <<"", "tid1">>, <<"">>} : SvcTokenReset(tids)
      [] cls = "misc" ->
            \/ \E c \in Conns : CliClose(c)
            \/ \E ms \in {1000, 6000} : Time(ms)
            \/ \E kind \in {"stop", "mqlost"}, d \in Drains : SvcStop(kind, d)
            \/ SvcStop("start", <<>>)
            \/ Quiesce
      [] OTHER -> FALSE

AllClasses == {"int", "reply", "cli", "svc", "trig", "misc"}

NextAny == \E cls \in AllClasses : NextC(cls)

(* Simulation picks the action class by weight, then a step of that class   *)
(* uniformly; exhaustive exploration uses NextAny.                          *)
Next ==
    /\ IF ENABLED NextC(nx) THEN NextC(nx) ELSE NextAny
    /\ nx' = Weights[RandomElement(DOMAIN Weights)]

Spec == Init /\ [][Next]_vars

(* TLC prints the last state of a simulated behaviour; h is the schedule.   *)
=============================================================================
