--------------------------- MODULE ResObserver ---------------------------
(***************************************************************************)
(* Pure operators of the observer: the reference RES client (what a        *)
(* protocol-following client holds after each message), the announced     *)
(* state of the services, the access ledger and the event-stream ledger.  *)
(* Every listed property is a predicate over this state.  The operators   *)
(* are used by ObserverTrace (recorded executions of the real gateway)    *)
(* and by the model-checking modules.                                     *)
(***************************************************************************)
EXTENDS Integers, Sequences, FiniteSets, TLC

Get(f, k, d) == IF k \in DOMAIN f THEN f[k] ELSE d
Put(f, k, v) == (k :> v) @@ f
Del(f, k) == [x \in DOMAIN f \ {k} |-> f[x]]
RestrictTo(f, S) == [x \in DOMAIN f \cap S |-> f[x]]
MaxI(a, b) == IF a > b THEN a ELSE b
SeqToSet(s) == {s[i] : i \in DOMAIN s}

-----------------------------------------------------------------------------
(* Values are records [t, v]: t = "p" primitive (v raw JSON), "r" reference *)
(* (v rid), "s" soft reference, "d" data value, "x" delete action.          *)
(* Contents are records [k, m, c, code]: k = "m" model, "c" collection,     *)
(* "e" error placeholder.                                                   *)

Model(m) == [k |-> "m", m |-> m, c |-> <<>>, code |-> ""]
Coll(c) == [k |-> "c", m |-> <<>>, c |-> c, code |-> ""]
ErrRes(code) == [k |-> "e", m |-> <<>>, c |-> <<>>, code |-> code]

Refs(e) ==
    IF e.k = "m" THEN {e.m[x].v : x \in {y \in DOMAIN e.m : e.m[y].t = "r"}}
    ELSE IF e.k = "c" THEN {e.c[i].v : i \in {j \in DOMAIN e.c : e.c[j].t = "r"}}
    ELSE {}

RECURSIVE Closure(_, _)
Closure(S, res) ==
    LET N == S \cup UNION {Refs(res[r]) : r \in S \cap DOMAIN res}
    IN IF N = S THEN S ELSE Closure(N, res)

Roots(direct) == {r \in DOMAIN direct : direct[r] > 0}

(* Resources a client retains: reachable from its direct subscriptions over *)
(* non-soft references (RES client protocol).                               *)
Held(direct, res) == Closure(Roots(direct), res)

SetRes(set) ==
    [r \in DOMAIN set.models |-> Model(set.models[r])]
    @@ [r \in DOMAIN set.collections |-> Coll(set.collections[r])]
    @@ [r \in DOMAIN set.errors |-> ErrRes(set.errors[r])]

(* Protocol encodings: clients below 1.2.1 get soft references as strings   *)
(* and data values as a placeholder.                                        *)
EncVal(v, lg) ==
    IF ~lg THEN v
    ELSE IF v.t = "s" THEN [t |-> "p", v |-> "\"" \o v.v \o "\""]
    ELSE IF v.t = "d" THEN [t |-> "p", v |-> "\"[Data]\""]
    ELSE v

Encode(e, lg) ==
    IF e.k = "m" THEN Model([x \in DOMAIN e.m |-> EncVal(e.m[x], lg)])
    ELSE IF e.k = "c" THEN Coll([i \in DOMAIN e.c |-> EncVal(e.c[i], lg)])
    ELSE e

-----------------------------------------------------------------------------
(* Event application (used for the client copy and for the announced state) *)

ChangeOK(e, vals) == e.k = "m"
ApplyChange(e, vals) ==
    LET dels == {k \in DOMAIN vals : vals[k].t = "x"}
        dom == (DOMAIN e.m \cup DOMAIN vals) \ dels
    IN Model([k \in dom |-> IF k \in DOMAIN vals THEN vals[k] ELSE e.m[k]])

AddOK(e, idx) == e.k = "c" /\ idx >= 0 /\ idx <= Len(e.c)
ApplyAdd(e, idx, v) == Coll(SubSeq(e.c, 1, idx) \o <<v>> \o SubSeq(e.c, idx + 1, Len(e.c)))

RemoveOK(e, idx) == e.k = "c" /\ idx >= 0 /\ idx < Len(e.c)
ApplyRemove(e, idx) == Coll(SubSeq(e.c, 1, idx) \o SubSeq(e.c, idx + 2, Len(e.c)))

(* A service event applied to one candidate of the announced state; an      *)
(* inapplicable event is ignored as a whole.                                *)
ProperVals(vals) == \A k \in DOMAIN vals : vals[k].t \in {"p", "r", "s", "d", "x"}
AnnApply(e, ev) ==
    CASE ev.ev = "change" -> IF ChangeOK(e, ev.vals) /\ ProperVals(ev.vals) THEN ApplyChange(e, ev.vals) ELSE e
      [] ev.ev = "add" -> IF AddOK(e, ev.idx) /\ ev.val.t \in {"p", "r", "s", "d"} THEN ApplyAdd(e, ev.idx, ev.val) ELSE e
      [] ev.ev = "remove" -> IF RemoveOK(e, ev.idx) THEN ApplyRemove(e, ev.idx) ELSE e
      [] OTHER -> e

RECURSIVE AnnApplySeq(_, _)
AnnApplySeq(e, evs) == IF evs = <<>> THEN e ELSE AnnApplySeq(AnnApply(e, Head(evs)), Tail(evs))

-----------------------------------------------------------------------------
(* Call gating: "*" or an exact entry of the comma separated list.          *)
CallAllowed(call, calllist, meth) == call = "*" \/ meth \in SeqToSet(calllist)

=============================================================================
