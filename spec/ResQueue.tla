------------------------------ MODULE ResQueue ------------------------------
(***************************************************************************)
(* The work queue of one cached resource name (eventSubscription.go:       *)
(* Enqueue, enqueueUnlock, lockEvents, processQueue) with the cache's      *)
(* worker channel.  A query event locks the queue with one slot per cached *)
(* query; every answer (or skipped query) gives one slot back through      *)
(* enqueueUnlock; ordinary work waits until all slots are back.            *)
(*                                                                         *)
(* The worker holds the entry's mutex while it runs, but work items may    *)
(* release it in the middle (Loaded callbacks), so other goroutines can    *)
(* Enqueue / enqueueUnlock while an item runs: processQueue is modelled    *)
(* item by item (WStart, WUnlockItem, WAfterUnlocks, WItem, WEnd).         *)
(*                                                                         *)
(* Decides, for the design:                                                *)
(*   SingleWorker   at most one worker token / active worker per entry     *)
(*   FIFO           work runs in the order it was enqueued                 *)
(*   NoWorkLocked   no ordinary work item runs while slots are outstanding *)
(*                  (C13: events wait for the query answers)               *)
(*   NothingStuck   whenever no worker is due, the queue is empty or the   *)
(*                  entry is locked waiting for slots                      *)
(*   AllRun         every enqueued item eventually runs if every slot is   *)
(*                  eventually given back                                  *)
(***************************************************************************)
EXTENDS Integers, Sequences, FiniteSets

CONSTANTS MaxWork,    \* work items 1..MaxWork (ordinary ones and query events)
          MaxLock     \* a query event locks 1..MaxLock slots (0: ordinary work)

VARIABLES queue,     \* e.queue (items not yet removed; the worker's idx points into it)
          locked,    \* e.locks # nil
          cap,       \* cap(e.locks): slots still to be given back
          lk,        \* e.locks contents: unlock callbacks waiting for the worker
          inCh,      \* tokens for this entry in the cache's worker channel
          w,         \* worker: [pc, idx] pc in {"idle","unlocks","items"}
          nextItem,  \* next work item to be enqueued
          owed,      \* slots locked whose enqueueUnlock call has not happened yet
          ran,       \* items executed, in order
          LockOf     \* item -> number of slots it locks when it runs (chosen when enqueued)

vars == <<queue, locked, cap, lk, inCh, w, nextItem, owed, ran, LockOf>>

Idle == [pc |-> "idle", idx |-> 0]

Init == queue = <<>> /\ locked = FALSE /\ cap = 0 /\ lk = 0 /\ inCh = 0 /\ w = Idle /\ nextItem = 1 /\ owed = 0 /\ ran = <<>> /\ LockOf = <<>>

(* Enqueue(f): under the mutex, i.e. not while the worker runs without having released it; *)
(* releasing happens inside items, so Enqueue is allowed at any time between worker steps. *)
Enqueue ==
    /\ nextItem <= MaxWork
    /\ queue' = Append(queue, nextItem)
    /\ inCh' = IF ~locked /\ Len(queue) = 0 THEN inCh + 1 ELSE inCh
    /\ nextItem' = nextItem + 1
    /\ \E n \in 0..MaxLock : LockOf' = Append(LockOf, n)
    /\ UNCHANGED <<locked, cap, lk, w, owed, ran>>

(* enqueueUnlock(f): an answer arrived / a skipped query gives its slot back *)
EnqueueUnlock ==
    /\ owed > 0
    /\ lk' = lk + 1 /\ owed' = owed - 1
    /\ inCh' = IF lk = 0 THEN inCh + 1 ELSE inCh
    /\ UNCHANGED <<queue, locked, cap, w, nextItem, ran, LockOf>>

(* a cache worker takes the entry from the channel and enters processQueue *)
WStart ==
    /\ inCh > 0 /\ w.pc = "idle"
    /\ inCh' = inCh - 1
    /\ w' = IF locked THEN [pc |-> "unlocks", idx |-> 0] ELSE [pc |-> "items", idx |-> 0]
    /\ UNCHANGED <<queue, locked, cap, lk, nextItem, owed, ran, LockOf>>

(* for len(e.locks) > idx { f = e.locks[idx]; idx++; f() } *)
WUnlockItem ==
    /\ w.pc = "unlocks" /\ lk > w.idx
    /\ w' = [w EXCEPT !.idx = @ + 1]
    /\ UNCHANGED <<queue, locked, cap, lk, inCh, nextItem, owed, ran, LockOf>>

(* e.locks = e.locks[idx:]; if cap(e.locks) > 0 return; e.locks = nil; if len(e.queue) == 0 return *)
WAfterUnlocks ==
    /\ w.pc = "unlocks" /\ lk <= w.idx
    /\ lk' = lk - w.idx /\ cap' = cap - w.idx
    /\ IF cap - w.idx > 0 THEN w' = Idle /\ UNCHANGED locked
       ELSE /\ locked' = FALSE
            /\ w' = IF Len(queue) = 0 THEN Idle ELSE [pc |-> "items", idx |-> 0]
    /\ UNCHANGED <<queue, inCh, nextItem, owed, ran, LockOf>>

(* f = e.queue[idx]; idx++; f(); if e.locks != nil { drop the processed prefix; return } *)
WItem ==
    /\ w.pc = "items" /\ Len(queue) > w.idx
    /\ LET it == queue[w.idx + 1]
           n == LockOf[it]
       IN /\ ran' = Append(ran, it)
          /\ IF n > 0
             THEN /\ locked' = TRUE /\ cap' = n /\ owed' = owed + n
                  /\ queue' = SubSeq(queue, w.idx + 2, Len(queue))
                  /\ w' = Idle
             ELSE /\ w' = [w EXCEPT !.idx = @ + 1]
                  /\ UNCHANGED <<locked, cap, owed, queue>>
    /\ UNCHANGED <<lk, inCh, nextItem, LockOf>>

(* e.queue = e.queue[0:0] *)
WEnd ==
    /\ w.pc = "items" /\ Len(queue) <= w.idx
    /\ queue' = <<>> /\ w' = Idle
    /\ UNCHANGED <<locked, cap, lk, inCh, nextItem, owed, ran, LockOf>>

Next == Enqueue \/ EnqueueUnlock \/ WStart \/ WUnlockItem \/ WAfterUnlocks \/ WItem \/ WEnd

Spec == Init /\ [][Next]_vars /\ WF_vars(WStart) /\ WF_vars(WUnlockItem) /\ WF_vars(WAfterUnlocks) /\ WF_vars(WItem) /\ WF_vars(WEnd) /\ WF_vars(EnqueueUnlock)

-----------------------------------------------------------------------------
SingleWorker == inCh + (IF w.pc = "idle" THEN 0 ELSE 1) <= 1
FIFO == \A i \in 1..Len(ran) : ran[i] = i
NoWorkLocked == (w.pc = "items") => ~locked
SlotsAccounted == locked => cap = owed + lk
NothingStuck == (inCh = 0 /\ w.pc = "idle") => (queue = <<>> \/ (locked /\ owed > 0 /\ lk = 0))
NoLostUnlock == (inCh = 0 /\ w.pc = "idle") => lk = 0
AllRun == \A i \in 1..MaxWork : (nextItem > i) ~> (Len(ran) >= i)
=============================================================================
