---------------------------- MODULE ResQueueTrace ----------------------------
(***************************************************************************)
(* Replay of the notes taken under the mutex of a cached resource name's   *)
(* work queue (tag verif: qEnq, qUnl, qLock, qStart, qAfterUnl, qEnd)      *)
(* against the transitions of ResQueue.tla.  Tracked per name:             *)
(*   ql      len(e.queue)                                                  *)
(*   locked  e.locks # nil        cap   slots still to be given back       *)
(*   lk      unlock callbacks waiting for the worker                       *)
(*   tok     tokens for the entry in the cache's worker channel            *)
(*   act     a worker is inside processQueue                               *)
(* RQStep returns the next record and the discrepancies.  Each is reported *)
(* under C13 (the lock is the query-event serialisation) except the worker *)
(* accounting, which is C15 (two workers on one entry corrupt the queue).  *)
(***************************************************************************)
EXTENDS Integers, Sequences, TLC

RQNew == [ql |-> 0, locked |-> FALSE, cap |-> 0, lk |-> 0, tok |-> 0, act |-> FALSE]

RQRes(x, errs) == [x |-> x, errs |-> errs]
RQErr(p, m) == [p |-> p, m |-> m]

RQStep(x, r) ==
    CASE r.kind = "qEnq" ->
            LET send == ~x.locked /\ x.ql = 0
            IN RQRes([x EXCEPT !.ql = @ + 1, !.tok = IF r.sent THEN @ + 1 ELSE @],
                     (IF r.count # x.ql THEN {RQErr("C13", "Enqueue found " \o ToString(r.count) \o " queued items, ResQueue.tla says " \o ToString(x.ql))} ELSE {})
                     \cup (IF r.locked # x.locked THEN {RQErr("C13", "Enqueue found the queue " \o (IF r.locked THEN "locked" ELSE "unlocked") \o ", ResQueue.tla says the opposite")} ELSE {})
                     \cup (IF r.sent # send THEN {RQErr("C15", "Enqueue " \o (IF r.sent THEN "woke" ELSE "did not wake") \o " a worker, ResQueue.tla says " \o ToString(send))} ELSE {}))
      [] r.kind = "qUnl" ->
            RQRes([x EXCEPT !.lk = @ + 1, !.tok = IF r.count = 0 THEN @ + 1 ELSE @],
                  (IF r.count # x.lk THEN {RQErr("C13", "enqueueUnlock found " \o ToString(r.count) \o " waiting unlocks, ResQueue.tla says " \o ToString(x.lk))} ELSE {})
                  \cup (IF ~x.locked THEN {RQErr("C13", "enqueueUnlock on a queue that is not locked")} ELSE {})
                  \cup (IF x.locked /\ x.lk + 1 > x.cap THEN {RQErr("C13", "more unlocks than locked slots (" \o ToString(x.cap) \o ")")} ELSE {}))
      [] r.kind = "qStart" ->
            RQRes([x EXCEPT !.tok = @ - 1, !.act = TRUE],
                  (IF x.act THEN {RQErr("C15", "a second worker entered processQueue of the entry")} ELSE {})
                  \cup (IF x.tok < 1 THEN {RQErr("C15", "worker entered processQueue without a wake-up")} ELSE {})
                  \cup (IF r.locked # x.locked \/ r.nlk # x.lk \/ r.qlen # x.ql
                        THEN {RQErr("C13", "processQueue found " \o ToString(<<r.locked, r.nlk, r.qlen>>) \o " (locked, unlocks, items), ResQueue.tla says " \o ToString(<<x.locked, x.lk, x.ql>>))} ELSE {}))
      [] r.kind = "qAfterUnl" ->
            LET c2 == x.cap - r.ran
            IN RQRes([x EXCEPT !.lk = @ - r.ran, !.cap = c2, !.locked = c2 > 0],
                     (IF r.cap # c2 THEN {RQErr("C13", ToString(r.cap) \o " slots outstanding after " \o ToString(r.ran) \o " unlocks, ResQueue.tla says " \o ToString(c2))} ELSE {})
                     \cup (IF r.ran > x.lk THEN {RQErr("C13", "more unlock callbacks run than were enqueued")} ELSE {}))
      [] r.kind = "qLock" ->
            RQRes([x EXCEPT !.locked = r.num > 0, !.cap = r.num],
                  IF x.locked THEN {RQErr("C13", "queue locked again while slots of an earlier query event are outstanding")} ELSE {})
      [] r.kind = "qEnd" ->
            LET q2 == x.ql - r.ran
            IN RQRes([x EXCEPT !.ql = IF r.relocked THEN q2 ELSE 0, !.act = FALSE],
                     (IF r.qlen # (IF r.relocked THEN q2 ELSE 0) THEN {RQErr("C13", ToString(r.qlen) \o " items left after the worker ran " \o ToString(r.ran) \o ", ResQueue.tla says " \o ToString(IF r.relocked THEN q2 ELSE 0))} ELSE {})
                     \cup (IF ~r.relocked /\ q2 # 0 THEN {RQErr("C13", "worker left with " \o ToString(q2) \o " items not run")} ELSE {})
                     \cup (IF r.relocked # x.locked THEN {RQErr("C13", "worker stopped " \o (IF r.relocked THEN "for a lock" ELSE "at the end") \o ", ResQueue.tla says locked = " \o ToString(x.locked))} ELSE {}))
      [] r.kind = "qIdle" ->    \* the worker returned after the unlock phase (slots outstanding, or nothing queued)
            RQRes([x EXCEPT !.act = FALSE], IF ~x.locked /\ x.ql # 0 THEN {RQErr("C13", "worker left " \o ToString(x.ql) \o " items although the queue is unlocked")} ELSE {})
      [] OTHER -> RQRes(x, {})

(* quiescence: NothingStuck and NoLostUnlock of ResQueue.tla *)
RQQuiescent(x) ==
    (IF x.tok = 0 /\ ~x.act /\ x.ql # 0 /\ ~x.locked THEN {RQErr("C13", ToString(x.ql) \o " work items queued, unlocked, and no worker due")} ELSE {})
    \cup (IF x.tok = 0 /\ ~x.act /\ x.lk # 0 THEN {RQErr("C13", "unlock callbacks waiting and no worker due")} ELSE {})

RQNotes == {"qEnq", "qUnl", "qStart", "qAfterUnl", "qLock", "qEnd", "qIdle"}
=============================================================================
