------------------------------- MODULE ResSub -------------------------------
(***************************************************************************)
(* The cached content of one (non-query) resource against its service      *)
(* (resourceSubscription.go: handleEvent, processGetResponse,              *)
(* handleResetResource, processResetGetResponse).                          *)
(*                                                                         *)
(* The service owns a state that changes by numbered state events 1, 2, …  *)
(* It answers get requests with its state at answer time.  Everything the  *)
(* service publishes (events, get answers) reaches the gateway in publish  *)
(* order (one FIFO channel) - the assumption under which the gateway's     *)
(* shortcuts are sound:                                                    *)
(*   - events that arrive before the initial get answer are discarded      *)
(*     (the answer already contains them);                                 *)
(*   - state events that arrive while a reset re-fetch is outstanding are  *)
(*     discarded (the re-fetch answer supersedes them); custom events pass. *)
(* The cache's content is abstracted to "reflects the service state after  *)
(* event k"; what subscribers were told likewise.                          *)
(*                                                                         *)
(*   NoGap        an event is applied only to the state just before it     *)
(*   Told         what subscribers were told equals the cache              *)
(*   Converges    when the channel is empty and no get is outstanding the  *)
(*                cache equals the service state                           *)
(*   OneRefetch   at most one re-fetch outstanding                         *)
(*   Refetched    a reset of a loaded resource is eventually followed by a *)
(*                cache state not older than the service state at the reset *)
(***************************************************************************)
EXTENDS Integers, Sequences, FiniteSets

CONSTANTS MaxEv,      \* state events the service emits
          MaxReset,   \* system.reset events (each may follow a silent mutation)
          MaxCustom,  \* custom events
          MaxFail,    \* re-fetch requests that fail (timeout, error answer)
          Repaired    \* TRUE: state events received during a re-fetch are kept and handled if the re-fetch fails
                      \*       (fix in /repo); FALSE: they are dropped - TLC then finds Converges violated, the repaired defect

VARIABLES svc,        \* service state: number of the last state event / silent mutation
          chan,       \* published, not yet handed to the gateway: seq of records
          st,         \* "none" | "requested" | "loaded" | "error"
          cache,      \* the state the cached content reflects
          told,       \* the state the subscribers' copies reflect (initial content + forwarded events)
          resetting,  \* a re-fetch is outstanding
          gets,       \* get requests sent, not yet answered by the service: set of kinds {"init","reset"}
          resets,     \* resets so far
          customs,    \* custom events so far
          gotCustom,  \* custom events forwarded to subscribers
          owedReset,  \* service state at the last reset that found the resource loaded (0: none owed)
          kept,       \* state events received while the re-fetch is outstanding (resetEvents)
          fails,      \* failed re-fetches so far
          silent      \* service state after the last silent mutation that no answer has revealed yet (0: none)

vars == <<svc, chan, st, cache, told, resetting, gets, resets, customs, gotCustom, owedReset, kept, fails, silent>>

Init == svc = 0 /\ chan = <<>> /\ st = "none" /\ cache = 0 /\ told = 0 /\ resetting = FALSE /\ gets = {}
        /\ resets = 0 /\ customs = 0 /\ gotCustom = 0 /\ owedReset = 0 /\ kept = <<>> /\ fails = 0 /\ silent = 0

(* ------------------------------ service ------------------------------ *)
SvcEvent ==      \* a state event: the service state advances and the event is published
    /\ svc < MaxEv
    /\ svc' = svc + 1
    /\ chan' = Append(chan, [t |-> "ev", k |-> svc + 1])
    /\ UNCHANGED <<st, cache, told, resetting, gets, resets, customs, gotCustom, owedReset, kept, fails, silent>>

SvcSilent ==     \* a mutation without event (restart with changed data); only a reset reveals it
    /\ svc < MaxEv /\ resets < MaxReset
    /\ svc' = svc + 1
    /\ chan' = Append(chan, [t |-> "reset", k |-> svc + 1])
    /\ resets' = resets + 1 /\ silent' = svc + 1
    /\ UNCHANGED <<st, cache, told, resetting, gets, customs, gotCustom, owedReset, kept, fails>>

SvcCustom ==
    /\ customs < MaxCustom
    /\ customs' = customs + 1
    /\ chan' = Append(chan, [t |-> "custom", k |-> customs + 1])
    /\ UNCHANGED <<svc, st, cache, told, resetting, gets, resets, gotCustom, owedReset, kept, fails, silent>>

SvcAnswer(kind) ==   \* the service answers a get request with its current state
    /\ kind \in gets
    /\ gets' = gets \ {kind}
    /\ chan' = Append(chan, [t |-> kind \o "Ans", k |-> svc])
    /\ UNCHANGED <<svc, st, cache, told, resetting, resets, customs, gotCustom, owedReset, kept, fails, silent>>

SvcFail ==           \* the re-fetch request times out / is answered with an error other than not-found
    /\ "reset" \in gets /\ fails < MaxFail
    /\ gets' = gets \ {"reset"} /\ fails' = fails + 1
    /\ chan' = Append(chan, [t |-> "resetFail", k |-> 0])
    /\ UNCHANGED <<svc, st, cache, told, resetting, resets, customs, gotCustom, owedReset, kept, silent>>

(* ------------------------------ gateway ------------------------------ *)
Subscribe ==     \* first subscriber: the resource is requested
    /\ st = "none"
    /\ st' = "requested" /\ gets' = gets \cup {"init"}
    /\ UNCHANGED <<svc, chan, cache, told, resetting, resets, customs, gotCustom, owedReset, kept, fails, silent>>

Deliver ==       \* the gateway's queue hands the next published message to the resource
    /\ chan # <<>>
    /\ chan' = Tail(chan)
    /\ LET m == Head(chan)
       IN CASE m.t = "ev" ->
                 IF st # "loaded"
                 THEN UNCHANGED <<st, cache, told, resetting, gets, gotCustom, owedReset, kept, silent>>     \* discarded: the initial answer contains it
                 ELSE IF resetting
                 THEN /\ kept' = IF Repaired THEN Append(kept, m.k) ELSE kept                                \* superseded by the re-fetch answer
                      /\ UNCHANGED <<st, cache, told, resetting, gets, gotCustom, owedReset, silent>>
                 ELSE /\ cache' = m.k /\ told' = m.k
                      /\ UNCHANGED <<st, resetting, gets, gotCustom, owedReset, kept, silent>>
            [] m.t = "custom" ->
                 /\ gotCustom' = IF st = "loaded" THEN gotCustom + 1 ELSE gotCustom
                 /\ UNCHANGED <<st, cache, told, resetting, gets, owedReset, kept, silent>>
            [] m.t = "initAns" ->
                 /\ st' = "loaded" /\ cache' = m.k /\ told' = m.k
                 /\ owedReset' = IF m.k >= owedReset THEN 0 ELSE owedReset
                 /\ silent' = IF m.k >= silent THEN 0 ELSE silent
                 /\ UNCHANGED <<resetting, gets, gotCustom, kept>>
            [] m.t = "reset" ->      \* system.reset matching the resource: re-fetched also while the initial get is outstanding
                 IF st \in {"requested", "loaded"} /\ ~resetting
                 THEN /\ resetting' = TRUE /\ gets' = gets \cup {"reset"} /\ owedReset' = m.k
                      /\ UNCHANGED <<st, cache, told, gotCustom, kept, silent>>
                 ELSE /\ owedReset' = IF st \in {"requested", "loaded"} THEN m.k ELSE owedReset
                      /\ UNCHANGED <<st, cache, told, resetting, gets, gotCustom, kept, silent>>
            [] m.t = "resetFail" ->  \* the re-fetch failed: the kept events are handled now, nothing was revealed
                 /\ resetting' = FALSE /\ kept' = <<>>
                 /\ IF st = "loaded" /\ kept # <<>> THEN cache' = kept[Len(kept)] /\ told' = kept[Len(kept)] ELSE UNCHANGED <<cache, told>>
                 /\ owedReset' = 0
                 /\ UNCHANGED <<st, gets, gotCustom, silent>>
            [] OTHER ->              \* "resetAns": the diff is turned into events for the subscribers;
                                     \* ignored if the initial answer has not arrived yet (it was published later and is fresher)
                 /\ resetting' = FALSE /\ kept' = <<>>
                 /\ IF st = "loaded" THEN cache' = m.k /\ told' = m.k ELSE UNCHANGED <<cache, told>>
                 /\ owedReset' = IF m.k >= owedReset THEN 0 ELSE owedReset
                 /\ silent' = IF st = "loaded" /\ m.k >= silent THEN 0 ELSE silent
                 /\ UNCHANGED <<st, gets, gotCustom>>
    /\ UNCHANGED <<svc, resets, customs, fails>>

Next == SvcEvent \/ SvcSilent \/ SvcCustom \/ (\E k \in {"init", "reset"} : SvcAnswer(k)) \/ SvcFail \/ Subscribe \/ Deliver

Spec == Init /\ [][Next]_vars /\ WF_vars(Deliver) /\ WF_vars(\E k \in {"init", "reset"} : SvcAnswer(k))

-----------------------------------------------------------------------------
(* an event is applied only when the cache reflects the state just before it *)
(* (while a silent mutation is unrevealed the cache is knowingly behind, and events are deltas on whatever it holds) *)
NoGap == [][(chan # <<>> /\ chan' = Tail(chan) /\ Head(chan).t = "ev" /\ cache' # cache /\ silent = 0) => cache = Head(chan).k - 1]_vars
Told == st = "loaded" => told = cache
OneRefetch == /\ Cardinality({i \in DOMAIN chan : chan[i].t \in {"resetAns", "resetFail"}}) + (IF "reset" \in gets THEN 1 ELSE 0) = (IF resetting THEN 1 ELSE 0)
              /\ Cardinality({i \in DOMAIN chan : chan[i].t = "initAns"}) + (IF "init" \in gets THEN 1 ELSE 0) = (IF st = "requested" THEN 1 ELSE 0)
Quiet == chan = <<>> /\ gets = {}
(* silent mutations are only revealed by their reset, so convergence is owed once every reset has been handled *)
(* a silent mutation whose re-fetch failed stays unrevealed until the next reset: convergence is owed for what was announced *)
Converges == (Quiet /\ st = "loaded" /\ ~resetting /\ silent = 0) => cache = svc
Refetched == (owedReset > 0) ~> (owedReset = 0)
=============================================================================
