----------------------------- MODULE ResSubTrace -----------------------------
(***************************************************************************)
(* Replay of the notes taken in a cached resource's event handling (tag    *)
(* verif: rsEvent at the entry of handleEvent, rsFwd right before the event *)
(* is passed to the subscribers, resetres when a re-fetch starts,           *)
(* rsResetAns when its answer is processed) against ResSub.tla's rules:     *)
(*   - an event reaches the subscribers only if the resource is loaded, and *)
(*     a state event (change / add / remove / delete) only if no re-fetch   *)
(*     is outstanding (the re-fetch answer supersedes it);                  *)
(*   - every other event (custom events carry no state and cannot be        *)
(*     reconstructed from a re-fetch) that arrives for a loaded resource IS *)
(*     passed on (C03: no gap);                                             *)
(*   - the re-fetch flag of the code equals the model's.                    *)
(* Tracked per cache key: resetting, and the event that must still be       *)
(* forwarded.                                                               *)
(***************************************************************************)
EXTENDS Integers, Sequences, TLC

RSTNew == [resetting |-> FALSE, owe |-> ""]
RSTRes(x, errs) == [x |-> x, errs |-> errs]
RSTErr(p, m) == [p |-> p, m |-> m]
RSTStateEv == {"change", "add", "remove", "delete"}
RSTLoaded(st) == st >= 3       \* stateCollection, stateModel

RSTOwed(x) == IF x.owe # "" THEN {RSTErr("C03", x.owe \o " event was not passed to the subscribers of the loaded resource")} ELSE {}

RSTStep(x, r) ==
    CASE r.kind = "rsEvent" ->
            RSTRes([x EXCEPT !.owe = IF RSTLoaded(r.state) /\ r.ev \notin RSTStateEv /\ r.ev # "reaccess" /\ r.subs > 0 THEN r.ev ELSE ""],
                   RSTOwed(x)
                   \cup (IF r.resetting # x.resetting THEN {RSTErr("C12", "re-fetch flag " \o ToString(r.resetting) \o ", ResSub.tla says " \o ToString(x.resetting))} ELSE {}))
      [] r.kind = "rsFwd" ->
            RSTRes([x EXCEPT !.owe = ""],
                   IF x.resetting /\ r.ev \in RSTStateEv
                   THEN {RSTErr("C12", r.ev \o " event passed to the subscribers while a re-fetch is outstanding (its answer is diffed against a cache that has the event applied already)")} ELSE {})
      [] r.kind = "resetres" ->
            RSTRes([x EXCEPT !.resetting = TRUE],
                   RSTOwed(x) \cup (IF x.resetting THEN {RSTErr("C12", "re-fetch started while an earlier re-fetch of the resource is outstanding")} ELSE {}))
      [] r.kind = "rsResetAns" ->
            RSTRes([x EXCEPT !.resetting = FALSE, !.owe = ""],
                   RSTOwed(x) \cup (IF ~x.resetting THEN {RSTErr("C12", "re-fetch answer processed although no re-fetch is outstanding")} ELSE {}))
      [] OTHER -> RSTRes(x, {})

RSTQuiescent(x) == RSTOwed(x) \cup (IF x.resetting THEN {RSTErr("C12", "re-fetch still outstanding at quiescence")} ELSE {})

RSTNotes == {"rsEvent", "rsFwd", "resetres", "rsResetAns"}
=============================================================================
