------------------------------ MODULE ResWindow ------------------------------
(***************************************************************************)
(* Bounded-exhaustive scenario enumerator.  After a fixed prologue that    *)
(* opens a window in the gateway (a reference being loaded, an access      *)
(* re-check pending, a query event being handled, an entry waiting for     *)
(* eviction), every ordered selection of K steps from a pool of client     *)
(* requests, service events, triggers and answers is a behaviour.  TLC     *)
(* enumerates all of them (the state graph is the tree of selections); the *)
(* runner replays each leaf on the real gateway.  Pre[i] is the set of     *)
(* pool steps that must have been taken before step i makes sense.         *)
(***************************************************************************)
EXTENDS Integers, Sequences, FiniteSets, TLC

CONSTANTS N,      \* pool size: steps are numbered 1..N
          K,      \* number of picks
          Reuse,  \* steps that may be picked more than once
          Pre     \* Pre[i]: steps required earlier

VARIABLE h

Range(s) == {s[i] : i \in DOMAIN s}

Init == h = <<>>

Next ==
    /\ Len(h) < K
    /\ \E i \in 1..N :
          /\ i \in Reuse \/ i \notin Range(h)
          /\ Pre[i] \subseteq Range(h)
          /\ h' = Append(h, i)

Spec == Init /\ [][Next]_h
=============================================================================
