------------------------------ MODULE SubAccess ------------------------------
(***************************************************************************)
(* The access cache of one client subscription (subscription.go loadAccess, *)
(* clearAccess, takeAccessCallbacks): one access request at a time, callers  *)
(* wait in accessCallbacks, the answer is cached until a reaccess (token     *)
(* change, reaccess event, access reset) clears it.                          *)
(*                                                                          *)
(* Time is counted in epochs: every reaccess starts a new one.  An access    *)
(* request carries the epoch in which it was issued (its token, what the      *)
(* service knew).  A decision is *fresh on arrival* if the answer it uses was *)
(* requested in an epoch not older than the one in which the deciding request *)
(* arrived - what C04 / C05 need for requests made after a trigger.           *)
(*                                                                          *)
(*   NoStaleCache     the cached answer was requested in the current epoch    *)
(*   FreshOnArrival   no request is decided on an answer requested before the *)
(*                    last reaccess that preceded the request                 *)
(*   OneInFlight      at most one access request of the subscription          *)
(*   Decided          every request is eventually decided                     *)
(* Not an invariant of the design (finding KF-R, kept as FreshAtDecision):    *)
(* a request that was already waiting when the reaccess came is decided on    *)
(* the answer asked for before it.                                            *)
(***************************************************************************)
EXTENDS Integers, Sequences, FiniteSets

CONSTANTS MaxReq,      \* client requests needing a verdict: 1..MaxReq
          MaxEpoch,    \* reaccess triggers
          Repaired     \* TRUE: the code after fix 783f622; FALSE: before it (clearAccess only dropped the cached answer) -
                       \* TLC then finds NoStaleCache and FreshOnArrival violated, which is the defect that was repaired

VARIABLES acc,        \* cached answer: 0 = none, else epoch + 1 in which it was requested
          called,     \* an access request is in flight (flagAccessCalled)
          fl,         \* epoch + 1 in which the in-flight request was issued (0: none)
          cbs,        \* waiting requests (accessCallbacks)
          stale,      \* flagAccessStale
          from,       \* accessStaleFrom
          epoch,      \* current epoch
          next,       \* next client request
          arrived,    \* request -> epoch in which it arrived
          decided     \* request -> epoch in which the answer it was decided on was requested

vars == <<acc, called, fl, cbs, stale, from, epoch, next, arrived, decided>>

Init == acc = 0 /\ called = FALSE /\ fl = 0 /\ cbs = <<>> /\ stale = FALSE /\ from = 0 /\ epoch = 0 /\ next = 1
        /\ arrived = <<>> /\ decided = <<>>

(* loadAccess(cb) as a function of the state: returns the new <<acc, called, fl, cbs, decidedNow>> *)
Load(r, a, c, f, q) ==
    IF a # 0 THEN [called |-> c, fl |-> f, cbs |-> q, dec |-> {<<r, a - 1>>}]
    ELSE IF c THEN [called |-> c, fl |-> f, cbs |-> Append(q, r), dec |-> {}]
    ELSE [called |-> TRUE, fl |-> epoch + 1, cbs |-> Append(q, r), dec |-> {}]

Put(fn, k, v) == [x \in DOMAIN fn \cup {k} |-> IF x = k THEN v ELSE fn[x]]

(* a client request needing a verdict reaches the subscription (CanGet / CanCall) *)
Request ==
    /\ next <= MaxReq
    /\ LET res == Load(next, acc, called, fl, cbs)
       IN /\ called' = res.called /\ fl' = res.fl /\ cbs' = res.cbs
          /\ decided' = IF res.dec = {} THEN decided ELSE Put(decided, next, acc - 1)
    /\ arrived' = Put(arrived, next, epoch)
    /\ next' = next + 1
    /\ UNCHANGED <<acc, stale, from, epoch>>

(* reaccess: clearAccess *)
Reaccess ==
    /\ epoch < MaxEpoch
    /\ epoch' = epoch + 1
    /\ acc' = 0
    /\ IF Repaired /\ called /\ ~stale THEN stale' = TRUE /\ from' = Len(cbs) ELSE UNCHANGED <<stale, from>>
    /\ UNCHANGED <<called, fl, cbs, next, arrived, decided>>

RECURSIVE LoadAll(_, _)
(* the late callbacks ask again, one after the other; st = [called, fl, cbs] *)
LoadAll(rs, st) ==
    IF rs = <<>> THEN st
    ELSE LET res == Load(Head(rs), 0, st.called, st.fl, st.cbs)
         IN LoadAll(Tail(rs), [called |-> res.called, fl |-> res.fl, cbs |-> res.cbs])

(* the answer of the in-flight request arrives: takeAccessCallbacks, cache, hand out *)
Answer(ok) ==
    /\ called
    /\ LET early == IF stale THEN SubSeq(cbs, 1, from) ELSE cbs
           late == IF stale THEN SubSeq(cbs, from + 1, Len(cbs)) ELSE <<>>
           st == LoadAll(late, [called |-> FALSE, fl |-> 0, cbs |-> <<>>])
       IN /\ called' = st.called /\ fl' = st.fl /\ cbs' = st.cbs
          /\ acc' = IF ~stale /\ ok THEN fl ELSE 0
          /\ decided' = [x \in DOMAIN decided \cup {early[i] : i \in DOMAIN early} |->
                            IF \E i \in DOMAIN early : early[i] = x THEN fl - 1 ELSE decided[x]]
    /\ stale' = FALSE /\ from' = 0
    /\ UNCHANGED <<epoch, next, arrived>>

Next == Request \/ Reaccess \/ \E ok \in BOOLEAN : Answer(ok)

Spec == Init /\ [][Next]_vars /\ WF_vars(\E ok \in BOOLEAN : Answer(ok))

-----------------------------------------------------------------------------
NoStaleCache == acc # 0 => acc - 1 = epoch
FreshOnArrival == \A r \in DOMAIN decided : decided[r] >= arrived[r]
OneInFlight == (called <=> fl # 0) /\ (~called => cbs = <<>>) /\ (stale => called)
WaitersKnown == \A i \in DOMAIN cbs : cbs[i] \in DOMAIN arrived /\ cbs[i] \notin DOMAIN decided
Decided == \A r \in 1..MaxReq : (r \in DOMAIN arrived) ~> (r \in DOMAIN decided)

(* NOT satisfied - finding KF-R: the verdict is not re-validated at decision time *)
FreshAtDecision == [][\A r \in DOMAIN decided' \ DOMAIN decided : decided'[r] = epoch]_vars
=============================================================================
