--------------------------- MODULE SubAccessTrace ---------------------------
(***************************************************************************)
(* Replay of the notes taken in a subscription's access-cache functions     *)
(* (tag verif: accLoad, accClear, accTake, accStore, dispose) against the    *)
(* transitions of SubAccess.tla.  Tracked per subscription object:           *)
(*   acc     an answer is cached       called  a request is in flight        *)
(*   ncb     waiting callbacks         stale / from  as in SubAccess          *)
(* Discrepancies are C05 violations (C04 for the get path shares the cache): *)
(* a request served from a cache the model says is empty, a request that     *)
(* joins or issues although an answer is cached, an answer cached although   *)
(* it was requested before a reaccess, waiting callbacks lost or invented.   *)
(***************************************************************************)
EXTENDS Integers, Sequences, TLC

SATNew == [acc |-> FALSE, called |-> FALSE, ncb |-> 0, stale |-> FALSE, from |-> 0, late |-> 0, disp |-> FALSE]

SATRes(x, errs) == [x |-> x, errs |-> errs]

SATPath(x) == IF x.acc THEN "cached" ELSE IF x.called THEN "joined" ELSE "issued"

SATStep(x, r) ==
    CASE r.kind = "accLoad" ->
            LET path == SATPath(x)
                x1 == CASE r.path = "cached" -> x
                        [] r.path = "joined" -> [x EXCEPT !.ncb = @ + 1]
                        [] OTHER -> [x EXCEPT !.ncb = @ + 1, !.called = TRUE]
                x2 == [x1 EXCEPT !.late = IF @ > 0 THEN @ - 1 ELSE 0]
            IN SATRes(x2, IF r.path # path THEN {"access " \o r.path \o ", SubAccess.tla says " \o path} ELSE {})
      [] r.kind = "accClear" ->
            SATRes(IF x.called /\ ~x.stale THEN [x EXCEPT !.acc = FALSE, !.stale = TRUE, !.from = x.ncb] ELSE [x EXCEPT !.acc = FALSE],
                   (IF r.had # x.acc THEN {"reaccess found " \o (IF r.had THEN "a" ELSE "no") \o " cached answer, SubAccess.tla says " \o ToString(x.acc)} ELSE {})
                   \cup (IF r.called # x.called THEN {"reaccess found the access request " \o (IF r.called THEN "in flight" ELSE "not in flight") \o ", SubAccess.tla says " \o ToString(x.called)} ELSE {}))
      [] r.kind = "accTake" ->
            LET late == IF x.stale THEN x.ncb - x.from ELSE 0
            IN SATRes([x EXCEPT !.called = FALSE, !.ncb = 0, !.stale = FALSE, !.from = 0, !.late = late],
                      (IF ~x.called THEN {"access answer handed out without a request in flight"} ELSE {})
                      \cup (IF r.count # x.ncb THEN {ToString(r.count) \o " callbacks wait for the access answer, SubAccess.tla says " \o ToString(x.ncb)} ELSE {})
                      \cup (IF r.stale # x.stale THEN {"access answer " \o (IF r.stale THEN "treated as" ELSE "not treated as") \o " requested before a reaccess, SubAccess.tla says " \o ToString(x.stale)} ELSE {})
                      \cup (IF r.stale /\ x.stale /\ r.from # x.from THEN {"callbacks from " \o ToString(r.from) \o " ask again, SubAccess.tla says from " \o ToString(x.from)} ELSE {}))
      [] r.kind = "accStore" ->
            SATRes([x EXCEPT !.acc = TRUE], IF x.called \/ x.ncb # 0 THEN {"access answer cached although SubAccess.tla has a request in flight / callbacks waiting"} ELSE {})
      [] r.kind = "dispose" -> SATRes([x EXCEPT !.disp = TRUE], {})
      [] OTHER -> SATRes(x, {})

SATNotes == {"accLoad", "accClear", "accTake", "accStore", "dispose"}
=============================================================================
