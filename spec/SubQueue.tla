------------------------------ MODULE SubQueue ------------------------------
(***************************************************************************)
(* Exhaustive model of one client subscription's event queue under every   *)
(* interleaving of: the resource's event stream, loading of its resources  *)
(* and of newly referenced ones, re-check triggers, access answers and the *)
(* client leaving.  Decides (for the design the code is compared with by   *)
(* SubQueueTrace.tla):                                                     *)
(*   NoLossNoReorder  C03: what the client got, the reference event in      *)
(*                    progress and the queue are exactly the accepted stream *)
(*   IdleDrained      C03: nothing stays queued when no reason to queue      *)
(*   ReasonsJustified every queueing reason has a pending continuation       *)
(*   TriggerKept      C06: a trigger is never forgotten                      *)
(*   Rechecked        C06: every trigger leads to an access request (or the  *)
(*                    subscription ends)                                      *)
(***************************************************************************)
EXTENDS Integers, Sequences, FiniteSets

CONSTANTS N,          \* events of the stream: 1..N
          Kinds,      \* sequence of kinds, length N
          MaxTrig     \* re-check triggers

KindOfEv(ev) == Kinds[ev]
INSTANCE SubQueueOps WITH KindOf <- KindOfEv

VARIABLES s,        \* the subscription record
          next,     \* next stream event to arrive
          accepted, \* events that arrived while the resource was attached
          trig,     \* triggers so far
          owed,     \* a trigger arrived that no access request has answered yet
          accPend   \* access requests of re-checks outstanding

vars == <<s, next, accepted, trig, owed, accPend>>

Init == s = SQNew /\ next = 1 /\ accepted = <<>> /\ trig = 0 /\ owed = FALSE /\ accPend = 0

Track(s2) == /\ s' = s2
             /\ accPend' = accPend + (s2.areq - s.areq)
             /\ owed' = IF s2.st = "disposed" \/ s2.direct = 0 \/ s2.areq > s.areq THEN FALSE ELSE owed

Loaded == s.st = "loading" /\ Track(SQLoaded(s)) /\ UNCHANGED <<next, accepted, trig>>
Release == s.st = "loaded" /\ Track(SQRelease(s)) /\ UNCHANGED <<next, accepted, trig>>

Arrive == /\ next <= N /\ s.st \notin {"deleted"}
          /\ s' = SQEvent(s, next)
          /\ accPend' = accPend + (s'.areq - s.areq)
          /\ owed' = IF s'.st = "disposed" THEN FALSE ELSE owed
          /\ accepted' = IF s.rs THEN Append(accepted, next) ELSE accepted
          /\ next' = next + 1 /\ UNCHANGED trig

RefReady == s.ref # 0 /\ s.st # "disposed" /\ Track(SQRefReady(s)) /\ UNCHANGED <<next, accepted, trig>>

Trigger == /\ trig < MaxTrig /\ s.st # "disposed"
           /\ LET s2 == SQTrigger(s)
              IN /\ s' = s2 /\ accPend' = accPend + (s2.areq - s.areq)
                 /\ owed' = (s2.direct > 0 /\ s2.areq = s.areq)
           /\ trig' = trig + 1 /\ UNCHANGED <<next, accepted>>

AccessReply(ok) == /\ accPend > 0
                   /\ LET s2 == SQAccessReply(s, ok)
                      IN /\ s' = s2 /\ accPend' = accPend - 1 + (s2.areq - s.areq)
                         /\ owed' = IF s2.st = "disposed" \/ s2.direct = 0 \/ s2.areq > s.areq THEN FALSE ELSE owed
                   /\ UNCHANGED <<next, accepted, trig>>

(* the client unsubscribes / disconnects *)
Leave == s.st # "disposed" /\ Track(SQDispose(s)) /\ UNCHANGED <<next, accepted, trig>>

Next == Loaded \/ Release \/ Arrive \/ RefReady \/ Trigger \/ (\E ok \in BOOLEAN : AccessReply(ok)) \/ Leave

Spec == Init /\ [][Next]_vars /\ WF_vars(Loaded) /\ WF_vars(Release) /\ WF_vars(RefReady) /\ WF_vars(\E ok \in BOOLEAN : AccessReply(ok))

-----------------------------------------------------------------------------
InProgress == IF s.ref # 0 THEN <<s.ref>> ELSE <<>>

NoLossNoReorder == s.st # "disposed" => s.out \o InProgress \o s.eq = accepted
IdleDrained == s.qf = {} => s.eq = <<>>
ReasonsJustified == s.st # "disposed" =>
                      /\ ("R" \in s.qf <=> accPend > 0)
                      /\ ("L" \in s.qf <=> (s.st \in {"loading", "loaded"} \/ s.ref # 0))
TriggerKept == owed => (s.rflag /\ s.qf # {})
DeferredOnlyWhileQueueing == s.rflag => s.qf # {}
Rechecked == owed ~> ~owed
=============================================================================
