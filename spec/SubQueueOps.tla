---------------------------- MODULE SubQueueOps ----------------------------
(***************************************************************************)
(* The event queue of one client subscription (server/subscription.go) as  *)
(* pure operators on a record.  One operator per closure / function of the *)
(* code: Loaded, Event, processEvent, queueEvents, unqueueEvents, reaccess, *)
(* handleReaccess, ReleaseRPCResources, Dispose.  Shared by SubQueue.tla    *)
(* (exhaustive model) and SubQueueTrace.tla (replay of the notes taken in   *)
(* those functions of the real gateway).                                    *)
(*                                                                          *)
(*   st     loading | loaded | sent | deleted | disposed                     *)
(*   qf     queueing reasons: "L" (loading: own resources or a new          *)
(*          reference), "R" (access re-check outstanding)                    *)
(*   eq     queued events                                                    *)
(*   rflag  a re-check was requested while queueing (flagReaccess)           *)
(*   rs     the cached resource is attached (resourceSub # nil)              *)
(*   direct number of direct subscriptions                                   *)
(*   out    events handed to the client (in order)                           *)
(*   ref    the event whose new reference is being loaded (0: none)          *)
(*   areq   access requests issued by re-checks                              *)
(***************************************************************************)
EXTENDS Integers, Sequences

CONSTANT KindOf(_)     \* event -> "plain" | "addref" | "delete"

SQNew == [st |-> "loading", qf |-> {"L"}, eq |-> <<>>, rflag |-> FALSE, rs |-> FALSE,
          direct |-> 1, out |-> <<>>, ref |-> 0, areq |-> 0]

(* Dispose: the queue is dropped with the subscription *)
SQDispose(s) == IF s.st = "disposed" THEN s
                ELSE [s EXCEPT !.st = "disposed", !.eq = <<>>, !.rs = FALSE, !.direct = 0]

(* handleReaccess: the deferred flag is consumed; a directly subscribed resource is re-checked *)
SQHandleReaccess(s) ==
    LET s1 == [s EXCEPT !.rflag = FALSE]
    IN IF s1.direct = 0 THEN s1 ELSE [s1 EXCEPT !.qf = @ \cup {"R"}, !.areq = @ + 1]

(* processEvent *)
SQProcess(s, ev) ==
    CASE KindOf(ev) = "addref" -> [s EXCEPT !.qf = @ \cup {"L"}, !.ref = ev]
      [] KindOf(ev) = "delete" -> SQDispose([s EXCEPT !.out = Append(@, ev), !.st = "deleted"])
      [] OTHER -> [s EXCEPT !.out = Append(@, ev)]

(* the drain loop of unqueueEvents: stops as soon as an event starts queueing again *)
RECURSIVE SQDrain(_)
SQDrain(s) == IF s.qf # {} \/ s.eq = <<>> THEN s
              ELSE SQDrain(SQProcess([s EXCEPT !.eq = Tail(@)], Head(s.eq)))

(* unqueueEvents(reason) *)
SQUnqueue(s, reason) ==
    LET s1 == [s EXCEPT !.qf = @ \ {reason}]
    IN IF s1.qf # {} THEN s1
       ELSE LET s2 == IF s1.rflag THEN SQHandleReaccess(s1) ELSE s1
            IN IF s2.qf # {} THEN s2 ELSE SQDrain(s2)

(* the Event closure (all but reaccess events) *)
SQPath(s) == IF ~s.rs THEN "discard" ELSE IF s.qf # {} THEN "queued" ELSE "process"
SQEvent(s, ev) ==
    CASE SQPath(s) = "discard" -> s
      [] SQPath(s) = "queued" -> [s EXCEPT !.eq = Append(@, ev)]
      [] OTHER -> SQProcess(s, ev)

(* reaccess: a reaccess event, a token change or a system reset asks for a re-check *)
SQTrigger(s) ==
    IF s.st = "disposed" THEN s
    ELSE IF s.qf # {} THEN [s EXCEPT !.rflag = TRUE]
    ELSE SQHandleReaccess(s)

SQLoaded(s) == IF s.st = "disposed" THEN s ELSE [s EXCEPT !.rs = TRUE, !.st = "loaded"]

(* ReleaseRPCResources: the response carrying the resource was written *)
SQRelease(s) == IF s.st \in {"disposed", "sent"} THEN s ELSE SQUnqueue([s EXCEPT !.st = "sent"], "L")

(* the OnReady continuation of an add / change event with a new reference *)
SQRefReady(s) == IF s.st = "disposed" THEN s
                 ELSE SQUnqueue([s EXCEPT !.out = Append(@, s.ref), !.ref = 0], "L")

(* the access answer of a re-check: no get access -> unsubscribed *)
SQAccessReply(s, ok) ==
    IF s.st = "disposed" THEN s
    ELSE SQUnqueue(IF ok THEN s ELSE SQDispose(s), "R")
=============================================================================
