---------------------------- MODULE SubQueueTrace ----------------------------
(***************************************************************************)
(* Replay of the notes taken in the event-queue functions of a client       *)
(* subscription (tag verif: subLoaded, subEvent, subProc, subQueue,          *)
(* subUnqueue, reaccess, reaccessDeferred, dispose) against the micro-steps  *)
(* of SubQueueOps.  One tracked record per subscription object:              *)
(*   rs, qf, eq, rflag as in SubQueueOps (eq holds event identities)         *)
(*   cur   the event the Event closure is about to process directly          *)
(*   disp  disposed                                                          *)
(* SQTStep returns the next record and the discrepancies, each tagged with   *)
(* the property it breaks: C03 (an event handled on another path than the    *)
(* model's, processed while queueing, out of queue order, queue bookkeeping  *)
(* off) or C06 (a re-check started while queueing, deferred while idle, or   *)
(* the deferred flag lost).                                                  *)
(***************************************************************************)
EXTENDS Integers, Sequences, TLC

SQTNew == [rs |-> FALSE, qf |-> {"L"}, eq |-> <<>>, rflag |-> FALSE, cur |-> 0, disp |-> FALSE, inRe |-> FALSE]

SQTEnc(qf) == (IF "L" \in qf THEN 1 ELSE 0) + (IF "R" \in qf THEN 2 ELSE 0)
SQTReason(n) == IF n = 1 THEN "L" ELSE "R"
SQTPath(x) == IF ~x.rs THEN "discard" ELSE IF x.qf # {} THEN "queued" ELSE "process"

SQTRes(x, errs) == [x |-> x, errs |-> errs]
SQTErr(p, m) == [p |-> p, m |-> m]

(* at the start of a closure an idle subscription has nothing queued *)
SQTIdle(x) == IF ~x.disp /\ x.qf = {} /\ x.eq # <<>>
              THEN {SQTErr("C03", ToString(Len(x.eq)) \o " events left in the queue of a subscription that is not queueing")} ELSE {}

SQTStep(x, r) ==
    CASE r.kind = "subLoaded" -> SQTRes([x EXCEPT !.rs = TRUE], {})
      [] r.kind = "subEvent" ->
            LET path == SQTPath(x)
                x1 == CASE r.path = "queued" -> [x EXCEPT !.eq = Append(@, r.evp)]
                        [] r.path = "process" -> [x EXCEPT !.cur = r.evp]
                        [] OTHER -> x
            IN SQTRes(x1, SQTIdle(x)
                          \cup (IF r.path # path THEN {SQTErr("C03", r.ev \o " event: " \o r.path \o ", SubQueueOps says " \o path \o " (queueing reasons " \o ToString(x.qf) \o ")")} ELSE {})
                          \cup (IF r.path = "queued" /\ r.qlen # Len(x1.eq) THEN {SQTErr("C03", "queue holds " \o ToString(r.qlen) \o " events after queueing one, SubQueueOps says " \o ToString(Len(x1.eq)))} ELSE {})
                          \cup (IF r.qf # SQTEnc(x.qf) THEN {SQTErr("C03", "queueing flag " \o ToString(r.qf) \o ", SubQueueOps says " \o ToString(SQTEnc(x.qf)))} ELSE {}))
      [] r.kind = "subProc" ->
            IF x.cur = r.evp /\ x.cur # 0 THEN SQTRes([x EXCEPT !.cur = 0], IF x.qf # {} THEN {SQTErr("C03", r.ev \o " event processed while the subscription is queueing " \o ToString(x.qf))} ELSE {})
            ELSE IF x.eq # <<>> /\ Head(x.eq) = r.evp
                 THEN SQTRes([x EXCEPT !.eq = Tail(@)], IF x.qf # {} THEN {SQTErr("C03", "queued " \o r.ev \o " event processed while the subscription is queueing " \o ToString(x.qf))} ELSE {})
            ELSE SQTRes(x, {SQTErr("C03", r.ev \o " event processed that is neither the event just received nor the head of the queue (queue " \o ToString(x.eq) \o ")")})
      [] r.kind = "subQueue" ->
            LET x1 == [x EXCEPT !.qf = @ \cup {SQTReason(r.reason)}, !.inRe = FALSE]
            IN SQTRes(x1, (IF r.qf # SQTEnc(x1.qf) THEN {SQTErr("C03", "queueing flag " \o ToString(r.qf) \o " after queueEvents, SubQueueOps says " \o ToString(SQTEnc(x1.qf)))} ELSE {})
                          \* queueing for a re-check happens in handleReaccess only (its note comes first)
                          \cup (IF r.reason = 2 /\ ~x.inRe THEN {SQTErr("C06", "events queued for an access re-check that no reaccess started")} ELSE {}))
      [] r.kind = "subUnqueue" ->
            LET x1 == [x EXCEPT !.qf = @ \ {SQTReason(r.reason)}]
            IN SQTRes(x1, (IF r.qf # SQTEnc(x1.qf) THEN {SQTErr("C03", "queueing flag " \o ToString(r.qf) \o " after unqueueEvents, SubQueueOps says " \o ToString(SQTEnc(x1.qf)))} ELSE {})
                          \cup (IF r.rflag # x.rflag THEN {SQTErr("C06", "deferred re-check flag " \o ToString(r.rflag) \o ", SubQueueOps says " \o ToString(x.rflag))} ELSE {}))
      [] r.kind = "reaccessDeferred" ->
            SQTRes([x EXCEPT !.rflag = TRUE], IF x.qf = {} /\ ~x.disp THEN {SQTErr("C06", "re-check deferred although the subscription is not queueing")} ELSE {})
      [] r.kind = "reaccess" ->
            SQTRes([x EXCEPT !.rflag = FALSE, !.inRe = TRUE], IF x.qf # {} THEN {SQTErr("C06", "re-check started while the subscription is queueing " \o ToString(x.qf))} ELSE {})
      [] r.kind = "dispose" -> SQTRes([x EXCEPT !.disp = TRUE, !.rs = FALSE, !.eq = <<>>, !.cur = 0], {})
      [] OTHER -> SQTRes(x, {})

SQTQuiescent(x) ==
    IF x.disp THEN {}
    ELSE SQTIdle(x)
         \cup (IF x.rflag /\ x.qf = {} THEN {SQTErr("C06", "a deferred re-check was never started although the subscription stopped queueing")} ELSE {})

SQTNotes == {"subLoaded", "subEvent", "subProc", "subQueue", "subUnqueue", "reaccessDeferred", "reaccess", "dispose"}
=============================================================================
