------------------------------ MODULE SubReady ------------------------------
(***************************************************************************)
(* Exhaustive model of readiness detection on one connection: client        *)
(* requests (subscribe / get / a new reference of an event) call OnReady on *)
(* a root, cached resources are loaded in any order, loads may fail.        *)
(*   FireOnce       every ready callback fires at most once (C07)           *)
(*   Complete       nothing that is still loading is ever marked sent, i.e. *)
(*                  when a callback fires everything reachable from its     *)
(*                  root has been loaded (C02: the response is complete)    *)
(*   Counted        a callback that has not fired is parked exactly as      *)
(*                  often as its counter says                               *)
(*   AllFire        every callback eventually fires (no stall on shared or  *)
(*                  cyclic references) - unless a subscription it is parked  *)
(*                  on is disposed (WithDispose, finding KF-H: negative      *)
(*                  check)                                                   *)
(* WithUnsend = TRUE adds the Unsend path of finding KF-U: Complete fails    *)
(* (second negative check).                                                  *)
(***************************************************************************)
EXTENDS SubReadyOps, TLC

CONSTANTS Nodes,        \* resource ids
          Graphs,       \* the reference graphs to explore: functions Nodes -> SUBSET Nodes
          MaxReq,       \* OnReady calls (client requests and new references of events)
          Fails,        \* resources whose load may fail
          WithDispose,  \* TRUE: a root may be disposed while loading (finding KF-H: Counted / AllFire are then violated)
          WithUnsend    \* TRUE: a sent subscription may be marked unsent (Unsend) and goes on processing events (finding
                        \* KF-U): a reference such an event brings is still loading when the subscription is sent again,
                        \* and is marked sent with it - Complete is then violated

VARIABLES S, nreq, Graph
vars == <<S, nreq, Graph>>

Init == /\ Graph \in Graphs
        /\ S = [st |-> [n \in Nodes |-> "none"], err |-> [n \in Nodes |-> FALSE], refs |-> [n \in Nodes |-> {}],
                wait |-> [n \in Nodes |-> <<>>], rcb |-> <<>>, bad |-> FALSE]
        /\ nreq = 0

(* a request on root n: the subscription is created if need be, then OnReady *)
Request(n) ==
    /\ nreq < MaxReq
    /\ S.st[n] # "disposed"
    /\ LET S1 == IF S.st[n] = "none" THEN [S EXCEPT !.st[n] = "loading"] ELSE S
       IN S' = SROnReady(S1, nreq + 1, n)
    /\ nreq' = nreq + 1 /\ UNCHANGED Graph

(* an add / change event on a sent subscription p brings a reference to c: addReference, then OnReady(c) unless *)
(* c has been sent already (processCollectionEvent / processModelEvent)                                       *)
EventAdd(p, c) ==
    /\ nreq < MaxReq
    /\ (S.st[p] = "sent" \/ (WithUnsend /\ S.st[p] = "ready" /\ ~S.err[p])) /\ c \notin S.refs[p] /\ S.st[c] # "disposed"
    /\ LET S1 == [S EXCEPT !.refs[p] = @ \cup {c}, !.st[c] = IF @ = "none" THEN "loading" ELSE @]
       IN S' = IF S1.st[c] = "sent" THEN S1 ELSE SROnReady(S1, nreq + 1, c)
    /\ nreq' = nreq + 1 /\ UNCHANGED Graph

LoadOK(n) == S.st[n] = "loading" /\ S' = SRLoadedOK(S, n, Graph[n]) /\ UNCHANGED <<nreq, Graph>>
LoadErr(n) == S.st[n] = "loading" /\ n \in Fails /\ S' = SRLoadedErr(S, n) /\ UNCHANGED <<nreq, Graph>>

(* the collector marks a sent subscription unsent (wsConnGC tryDelete -> Unsend): stateReady, events keep flowing *)
Unsend(n) == /\ WithUnsend /\ S.st[n] = "sent"
             /\ S' = [S EXCEPT !.st[n] = "ready"] /\ UNCHANGED <<nreq, Graph>>

(* the client gives up a root that nothing else refers to while it is loading *)
Dispose(n) == /\ WithDispose /\ S.st[n] = "loading" /\ \A m \in Nodes : n \notin S.refs[m]
              /\ S' = SRDispose(S, n) /\ UNCHANGED <<nreq, Graph>>

Next == \E n \in Nodes : Request(n) \/ LoadOK(n) \/ LoadErr(n) \/ Dispose(n) \/ Unsend(n) \/ \E c \in Nodes : EventAdd(n, c)
Spec == Init /\ [][Next]_vars /\ \A n \in Nodes : WF_vars(LoadOK(n))

FireOnce == \A i \in DOMAIN S.rcb : S.rcb[i].fired <= 1
Complete == ~S.bad
Counted == SRCounted(S)
(* a sent subscription refers only to subscriptions that are sent or failed - or that a callback is still waiting for *)
(* (the new reference of an event)                                                                                  *)
SentClosed == \A n \in Nodes : S.st[n] = "sent" =>
                 \A c \in S.refs[n] : S.st[c] \in {"sent", "ready"} \/ \E i \in DOMAIN S.rcb : S.rcb[i].root = c /\ S.rcb[i].fired = 0
AllFire == \A i \in 1..MaxReq : (i \in DOMAIN S.rcb) ~> (i \in DOMAIN S.rcb /\ S.rcb[i].fired = 1)
=============================================================================
