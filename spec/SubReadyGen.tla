----------------------------- MODULE SubReadyGen -----------------------------
(***************************************************************************)
(* Behaviours of SubReady.tla as schedules for the real gateway: TLC        *)
(* simulates the model (a reference graph chosen at the start, requests,    *)
(* loads completing or failing in any order, events that bring references)  *)
(* and every step is recorded in h; vlib/readygen.py turns h into harness   *)
(* steps (subscribe + access answer, get answer, change event) over         *)
(* resources shaped like the graph.  The recorded trace is then validated   *)
(* by ObserverTrace / SubReadyTrace like any other.                          *)
(***************************************************************************)
EXTENDS SubReady, Json

VARIABLE h

GInit == Init /\ h = <<ToJson([op |-> "graph", g |-> [n \in Nodes |-> Graph[n]]])>>
Lab(a) == h' = Append(h, ToJson(a))

GNext == \E n \in Nodes :
            \/ Request(n) /\ Lab([op |-> "req", n |-> n])
            \/ LoadOK(n) /\ Lab([op |-> "load", n |-> n, ok |-> TRUE])
            \/ LoadErr(n) /\ Lab([op |-> "load", n |-> n, ok |-> FALSE])
            \/ \E c \in Nodes : EventAdd(n, c) /\ Lab([op |-> "add", p |-> n, c |-> c])

GSpec == GInit /\ [][GNext]_<<vars, h>>
=============================================================================
