---------------------------- MODULE SubReadyOps ----------------------------
(***************************************************************************)
(* How a connection decides that a subscription and everything it refers   *)
(* to, recursively, has been loaded (server/subscription.go: OnReady,       *)
(* onLoaded, collectRefs, testReady, Loaded, doneLoading,                   *)
(* ReleaseRPCResources), as pure operators on one record S:                 *)
(*   st[n]    none | loading | loaded | ready | sent | disposed             *)
(*            (ready = stateReady: loading ended in an error, or unsent)    *)
(*   err[n]   the load failed                                               *)
(*   refs[n]  the subscriptions n refers to (set when n is loaded)          *)
(*   wait[n]  ready callbacks parked on n until it is loaded                *)
(*   rcb[i]   a ready callback: root, map (subscriptions already visited),  *)
(*            loading (visited subscriptions not yet collected), fired      *)
(*   bad      a subscription that was still loading was marked sent         *)
(* A ready callback walks the reference graph: every subscription that is   *)
(* neither ready nor visited is visited (onLoaded: counted in loading);     *)
(* a visited subscription that is loaded is collected at once (its own      *)
(* references are visited, then it is counted out), one that is not is      *)
(* collected when its Loaded closure runs.  The callback fires when the     *)
(* count returns to zero.  Shared by SubReady.tla (exhaustive model) and     *)
(* SubReadyTrace.tla (replay of the rdy* notes of the real gateway).         *)
(***************************************************************************)
EXTENDS Integers, Sequences, FiniteSets

SRIsReady(S, n) == S.st[n] \in {"ready", "sent"}

RECURSIVE SRRelease(_, _)
(* ReleaseRPCResources: the subscription and what it refers to is marked sent *)
SRRelease(S, n) ==
    IF S.st[n] \in {"disposed", "sent"} \/ S.err[n] THEN S
    ELSE LET S1 == [S EXCEPT !.st[n] = "sent", !.bad = @ \/ S.st[n] \in {"loading", "none"}]
             RECURSIVE Kids(_, _)
             Kids(T, ks) == IF ks = {} THEN T ELSE LET c == CHOOSE c \in ks : TRUE IN Kids(SRRelease(T, c), ks \ {c})
         IN Kids(S1, S.refs[n])

(* the callback itself: the response / event is built from the root and the tree is marked sent *)
SRFire(S, i) ==
    LET S1 == [S EXCEPT !.rcb[i].fired = @ + 1]
        r == S.rcb[i].root
    IN IF S.st[r] = "disposed" \/ S.err[r] THEN S1 ELSE SRRelease(S1, r)

SRTest(S, i) == IF S.rcb[i].loading = 0 THEN SRFire(S, i) ELSE S

RECURSIVE SROnLoaded(_, _, _), SRCollect(_, _, _), SRKids(_, _, _)
(* onLoaded: visit n for callback i *)
SROnLoaded(S, i, n) ==
    LET S1 == [S EXCEPT !.rcb[i].map = @ \cup {n}, !.rcb[i].loading = @ + 1]
    IN IF S1.st[n] \in {"loaded", "ready", "sent"} THEN SRCollect(S1, i, n)
       ELSE [S1 EXCEPT !.wait[n] = Append(@, i)]

SRKids(S, i, ks) ==
    IF ks = {} THEN S
    ELSE LET c == CHOOSE c \in ks : TRUE
             S1 == IF SRIsReady(S, c) \/ c \in S.rcb[i].map THEN S ELSE SROnLoaded(S, i, c)
         IN SRKids(S1, i, ks \ {c})

(* collectRefs: visit what n refers to, count n out, fire if nothing is left *)
SRCollect(S, i, n) ==
    LET S1 == SRKids(S, i, S.refs[n])
    IN SRTest([S1 EXCEPT !.rcb[i].loading = @ - 1], i)

(* OnReady(root): a new callback, unless the root is ready already (then it fires at once) *)
SROnReady(S, i, n) ==
    LET S0 == [S EXCEPT !.rcb = [x \in DOMAIN S.rcb \cup {i} |-> IF x = i THEN [root |-> n, map |-> {}, loading |-> 0, fired |-> 0] ELSE S.rcb[x]]]
    IN IF SRIsReady(S, n) THEN SRFire(S0, i) ELSE SROnLoaded(S0, i, n)

RECURSIVE SRCollectAll(_, _, _), SRDoneAll(_, _)
SRCollectAll(S, is, n) == IF is = <<>> THEN S ELSE SRCollectAll(SRCollect(S, Head(is), n), Tail(is), n)
SRDoneAll(S, is) == IF is = <<>> THEN S ELSE SRDoneAll(SRTest([S EXCEPT !.rcb[Head(is)].loading = @ - 1], Head(is)), Tail(is))

(* Loaded closure, success: the references kids are subscribed (created if new), the parked callbacks go on *)
SRLoadedOK(S, n, kids) ==
    LET S1 == [S EXCEPT !.st = [m \in DOMAIN S.st |-> IF m = n THEN "loaded" ELSE IF m \in kids /\ S.st[m] = "none" THEN "loading" ELSE S.st[m]],
                        !.refs[n] = kids, !.wait[n] = <<>>]
    IN SRCollectAll(S1, S.wait[n], n)

(* Loaded closure, failure: doneLoading *)
SRLoadedErr(S, n) ==
    SRDoneAll([S EXCEPT !.st[n] = "ready", !.err[n] = TRUE, !.wait[n] = <<>>], S.wait[n])

(* Dispose: the parked callbacks are dropped with the subscription (finding KF-H) *)
SRDispose(S, n) == [S EXCEPT !.st[n] = "disposed", !.wait[n] = <<>>, !.refs[n] = {}]

SRRange(s) == {s[k] : k \in DOMAIN s}
(* callbacks that can still fire are parked exactly as often as they count *)
SRCounted(S) == \A i \in DOMAIN S.rcb :
                   S.rcb[i].fired = 0 => S.rcb[i].loading = Cardinality({n \in DOMAIN S.wait : i \in SRRange(S.wait[n])})
=============================================================================
