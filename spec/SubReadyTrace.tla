---------------------------- MODULE SubReadyTrace ----------------------------
(***************************************************************************)
(* Replay of the notes taken in the readiness functions of the client       *)
(* subscriptions of one connection (tag verif: rdyNow, rdyOn,                *)
(* rdyCollect, rdyFire, rdyDone, subRef, subUnref, subRefsClear, subLoaded,  *)
(* subToSend, subSent, subDeleted, unsend, dispose) against the micro-steps of          *)
(* SubReadyOps: rdyOn is the first half of SROnLoaded, rdyCollect the end of *)
(* SRCollect, rdyFire SRFire, rdyDone SRLoadedErr's count-down.              *)
(* One tracked record per connection:                                        *)
(*   st, refs, wait  as in SubReadyOps, keyed by subscription object         *)
(*   tocol  callbacks taken off wait by the Loaded closure, to be collected  *)
(*   rcb    callback object -> [root, map, loading, fired, dropped]          *)
(* SRTStep returns the next record and the discrepancies, tagged C07 (a      *)
(* callback fires twice / never / with a wrong count) or C02 (it fires, or   *)
(* a subscription is marked sent, while something reachable is loading; a    *)
(* reference is left unvisited).                                             *)
(***************************************************************************)
EXTENDS Integers, Sequences, FiniteSets, TLC

SRTNew == [st |-> <<>>, refs |-> <<>>, wait |-> <<>>, tocol |-> <<>>, rcb |-> <<>>, rid |-> <<>>, wasUnsent |-> {}, early |-> {}]

SRTGet(f, k, d) == IF k \in DOMAIN f THEN f[k] ELSE d
SRTPut(f, k, v) == [x \in DOMAIN f \cup {k} |-> IF x = k THEN v ELSE f[x]]
SRTRange(s) == {s[i] : i \in DOMAIN s}
SRTSt(x, sp) == SRTGet(x.st, sp, "loading")
SRTRefs(x, sp) == SRTGet(x.refs, sp, {})
SRTWait(x, sp) == SRTGet(x.wait, sp, <<>>)
SRTTocol(x, sp) == SRTGet(x.tocol, sp, <<>>)
SRTReady(x, sp) == SRTSt(x, sp) \in {"ready", "tosend", "sent", "deleted"}   \* IsReady: state >= stateReady
SRTName(x, sp) == SRTGet(x.rid, sp, "?")

SRTRes(x, errs) == [x |-> x, errs |-> errs]
SRTErr(p, m) == [p |-> p, m |-> m, kf |-> ""]

(* the state class the code reports (int(s.state)) against the tracked one *)
SRTClass(n) == CASE n = 0 -> "disposed" [] n = 1 -> "loading" [] n = 2 -> "loaded" [] n = 3 -> "ready" [] n = 4 -> "tosend" [] n = 5 -> "sent" [] OTHER -> "deleted"
SRTStateErr(x, r) ==
    IF "state" \in DOMAIN r /\ (SRTClass(r.state) = "loading") # (SRTSt(x, r.sp) = "loading")
    THEN {SRTErr("C02", "state " \o SRTClass(r.state) \o " at " \o r.kind \o ", SubReadyOps says " \o SRTSt(x, r.sp))} ELSE {}

RECURSIVE SRTReach(_, _, _)
(* what a callback on root has to wait for: references are followed through subscriptions that are not ready *)
SRTReach(x, todo, seen) ==
    IF todo = {} THEN seen
    ELSE LET n == CHOOSE n \in todo : TRUE
             kids == IF SRTReady(x, n) THEN {} ELSE SRTRefs(x, n)
         IN SRTReach(x, (todo \cup kids) \ (seen \cup {n}), seen \cup {n})

RECURSIVE SRTBelow(_, _, _)
(* everything reachable from the subscriptions in todo *)
SRTBelow(x, todo, seen) ==
    IF todo = {} THEN seen
    ELSE LET n == CHOOSE n \in todo : TRUE
         IN SRTBelow(x, (todo \cup SRTRefs(x, n)) \ (seen \cup {n}), seen \cup {n})

SRTDropOne(sq, i) == IF \E k \in DOMAIN sq : sq[k] = i
                     THEN LET k0 == CHOOSE k \in DOMAIN sq : sq[k] = i IN [j \in 1..(Len(sq) - 1) |-> IF j < k0 THEN sq[j] ELSE sq[j + 1]]
                     ELSE sq

RECURSIVE SRTDecAll(_, _), SRTDropAll(_, _)
SRTDecAll(rcb, is) == IF is = <<>> THEN rcb ELSE SRTDecAll(SRTPut(rcb, Head(is), [rcb[Head(is)] EXCEPT !.loading = @ - 1]), Tail(is))
SRTDropAll(rcb, is) == IF is = <<>> THEN rcb ELSE SRTDropAll(SRTPut(rcb, Head(is), [rcb[Head(is)] EXCEPT !.dropped = TRUE]), Tail(is))

SRTStep(x0, r) ==
    LET x == IF "sp" \in DOMAIN r /\ "rid" \in DOMAIN r THEN [x0 EXCEPT !.rid = SRTPut(@, r.sp, r.rid)] ELSE x0
    IN
    CASE r.kind = "subRef" -> SRTRes([x EXCEPT !.refs = SRTPut(@, r.sp, SRTRefs(x, r.sp) \cup {r.csp}), !.rid = SRTPut(@, r.csp, r.crid)], {})
      [] r.kind = "subUnref" -> SRTRes([x EXCEPT !.refs = SRTPut(@, r.sp, SRTRefs(x, r.sp) \ {r.csp})], {})
      [] r.kind = "subRefsClear" -> SRTRes([x EXCEPT !.refs = SRTPut(@, r.sp, {})], {})
      [] r.kind = "subLoaded" ->
            \* (a subscription marked sent while loading - reported then - is loaded after all)
            SRTRes([x EXCEPT !.st = SRTPut(@, r.sp, "loaded"), !.tocol = SRTPut(@, r.sp, SRTWait(x, r.sp)), !.wait = SRTPut(@, r.sp, <<>>), !.early = @ \ {r.sp}],
                   IF SRTSt(x, r.sp) # "loading" /\ r.sp \notin x.early THEN {SRTErr("C07", "Loaded ran on a subscription that is " \o SRTSt(x, r.sp))} ELSE {})
      [] r.kind = "subToSend" ->
            \* populateResources: the subscription's data is in the resource set being built (stateToSend).
            \* finding KF-U, further consequence: a subscription that was marked unsent keeps processing events; when it is
            \* sent again, the still loading references such an event brought - and what they refer to - go with it
            LET loading == SRTSt(x, r.sp) = "loading"
            IN SRTRes([x EXCEPT !.st = SRTPut(@, r.sp, "tosend"), !.early = IF loading THEN @ \cup {r.sp} ELSE @],
                      IF loading THEN {[p |-> "C02", m |-> "put into a resource set (to be marked sent) while it is still loading",
                                        kf |-> IF r.sp \in SRTBelow(x, x.wasUnsent, {}) THEN "KF-U" ELSE ""]} ELSE {})
      [] r.kind = "subSent" ->
            \* finding KF-U, further consequence: a subscription that was marked unsent keeps processing events; when it is
            \* sent again, the still loading reference such an event brought is marked sent with it
            LET viaUnsent == r.sp \in SRTBelow(x, x.wasUnsent, {})
                loading == SRTSt(x, r.sp) = "loading"
            IN SRTRes([x EXCEPT !.st = SRTPut(@, r.sp, "sent"), !.early = IF loading THEN @ \cup {r.sp} ELSE @],
                      IF loading THEN {[p |-> "C02", m |-> "marked sent while it is still loading", kf |-> IF viaUnsent THEN "KF-U" ELSE ""]} ELSE {})
      [] r.kind = "subDeleted" -> SRTRes([x EXCEPT !.st = SRTPut(@, r.sp, "deleted")], {})
      [] r.kind = "unsend" /\ "sp" \in DOMAIN r -> SRTRes([x EXCEPT !.st = SRTPut(@, r.sp, "ready"), !.wasUnsent = @ \cup {r.sp}], {})
      [] r.kind = "rdyNow" ->
            SRTRes(x, IF SRTReady(x, r.sp) THEN {} ELSE {SRTErr("C02", "OnReady fires at once on a subscription that is " \o SRTSt(x, r.sp))})
      [] r.kind = "rdyOn" /\ (r.first \/ r.rcb \in DOMAIN x.rcb) ->
            \* first: OnReady has just made the callback; this subscription is its root
            LET cb == IF r.first THEN [root |-> r.sp, map |-> {}, loading |-> 0, fired |-> 0, dropped |-> FALSE] ELSE x.rcb[r.rcb]
                \* a callback parked on a disposed subscription never fires (finding KF-H: the code does not look at the state)
                gone == SRTSt(x, r.sp) = "disposed"
                cb1 == [cb EXCEPT !.map = @ \cup {r.sp}, !.loading = @ + 1, !.dropped = @ \/ gone]
                parks == SRTSt(x, r.sp) \in {"loading", "disposed"}
                x1 == [x EXCEPT !.rcb = SRTPut(@, r.rcb, cb1), !.wait = IF r.wait THEN SRTPut(@, r.sp, Append(SRTWait(x, r.sp), r.rcb)) ELSE @]
            IN SRTRes(x1, SRTStateErr(x, r)
                          \cup (IF gone THEN {[p |-> "C07", m |-> "a ready callback is parked on a disposed subscription and will never fire", kf |-> "KF-H"]} ELSE {})
                          \cup (IF r.sp \in cb.map THEN {SRTErr("C07", "visited twice by one ready callback")} ELSE {})
                          \cup (IF SRTReady(x, r.sp) THEN {SRTErr("C07", "a ready callback visits a subscription that is " \o SRTSt(x, r.sp))} ELSE {})
                          \cup (IF r.loading # cb1.loading THEN {SRTErr("C07", "ready callback counts " \o ToString(r.loading) \o " after a visit, SubReadyOps says " \o ToString(cb1.loading))} ELSE {})
                          \cup (IF r.wait # parks THEN {SRTErr("C02", "ready callback " \o (IF r.wait THEN "parked" ELSE "not parked") \o " although the subscription is " \o SRTSt(x, r.sp))} ELSE {}))
      [] r.kind = "rdyCollect" /\ r.rcb \in DOMAIN x.rcb ->
            LET cb == x.rcb[r.rcb]
                cb1 == [cb EXCEPT !.loading = @ - 1]
                left == {c \in SRTRefs(x, r.sp) : ~SRTReady(x, c) /\ c \notin cb.map}
                x1 == [x EXCEPT !.rcb = SRTPut(@, r.rcb, cb1), !.tocol = SRTPut(@, r.sp, SRTDropOne(SRTTocol(x, r.sp), r.rcb))]
            IN SRTRes(x1, (IF left # {} THEN {SRTErr("C02", "collected although its references " \o ToString({SRTName(x, c) : c \in left}) \o " are neither ready nor visited")} ELSE {})
                          \cup (IF SRTSt(x, r.sp) = "loading" THEN {SRTErr("C02", "collected while it is still loading")} ELSE {})
                          \cup (IF r.sp \notin cb.map THEN {SRTErr("C07", "collected for a ready callback that never visited it")} ELSE {})
                          \cup (IF r.loading # cb1.loading THEN {SRTErr("C07", "ready callback counts " \o ToString(r.loading) \o " after a collect, SubReadyOps says " \o ToString(cb1.loading))} ELSE {}))
      [] r.kind = "rdyFire" /\ r.rcb \in DOMAIN x.rcb ->
            LET cb == x.rcb[r.rcb]
                late == {n \in SRTReach(x, {cb.root}, {}) : SRTSt(x, n) = "loading"}
            IN SRTRes([x EXCEPT !.rcb = SRTPut(@, r.rcb, [cb EXCEPT !.fired = @ + 1])],
                      (IF cb.fired > 0 THEN {SRTErr("C07", "ready callback fires a second time")} ELSE {})
                      \cup (IF cb.loading # 0 THEN {SRTErr("C07", "ready callback fires while it counts " \o ToString(cb.loading))} ELSE {})
                      \cup (IF late # {} THEN {SRTErr("C02", "ready callback fires while " \o ToString({SRTName(x, n) : n \in late}) \o " reachable from its root are still loading")} ELSE {}))
      [] r.kind = "rdyDone" ->
            LET ws == SRTWait(x, r.sp) \o SRTTocol(x, r.sp)
            IN SRTRes([x EXCEPT !.st = SRTPut(@, r.sp, "ready"), !.wait = SRTPut(@, r.sp, <<>>), !.tocol = SRTPut(@, r.sp, <<>>),
                                !.rcb = SRTDecAll(@, ws)],
                      IF r.waiting # Len(ws) THEN {SRTErr("C07", "doneLoading releases " \o ToString(r.waiting) \o " ready callbacks, SubReadyOps says " \o ToString(Len(ws)))} ELSE {})
      [] r.kind = "dispose" ->
            \* Dispose drops what is parked in readyCallbacks; callbacks the Loaded closure has already taken (tocol) are
            \* still collected by it
            LET ws == SRTWait(x, r.sp)
            IN SRTRes([x EXCEPT !.st = SRTPut(@, r.sp, "disposed"), !.wait = SRTPut(@, r.sp, <<>>),
                                !.refs = SRTPut(@, r.sp, {}), !.rcb = SRTDropAll(@, ws), !.wasUnsent = @ \ {r.sp}, !.early = @ \ {r.sp}],
                      IF "ready" \in DOMAIN r /\ r.ready # Len(SRTWait(x, r.sp)) THEN {SRTErr("C07", "disposed with " \o ToString(r.ready) \o " parked ready callbacks, SubReadyOps says " \o ToString(Len(SRTWait(x, r.sp))))} ELSE {})
      [] OTHER -> SRTRes(x, {})

(* at quiescence every callback has fired - except those dropped with a disposed subscription (finding KF-H) *)
SRTQuiescent(x) ==
    {[p |-> "C07", m |-> "the ready callback on " \o SRTName(x, x.rcb[i].root) \o " never fired (it still counts " \o ToString(x.rcb[i].loading) \o ")",
      kf |-> IF x.rcb[i].dropped THEN "KF-H" ELSE ""] : i \in {j \in DOMAIN x.rcb : x.rcb[j].fired = 0}}
    \cup {SRTErr("C07", "ready callbacks parked on " \o SRTName(x, sp) \o " were not resumed after it was loaded") : sp \in {s \in DOMAIN x.tocol : x.tocol[s] # <<>>}}

SRTNotes == {"subRef", "subUnref", "subRefsClear", "subLoaded", "subToSend", "subSent", "subDeleted", "unsend", "rdyNow", "rdyOn", "rdyCollect", "rdyFire", "rdyDone", "dispose"}
=============================================================================
