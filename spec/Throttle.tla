------------------------------ MODULE Throttle ------------------------------
(***************************************************************************)
(* rescache.Throttle: at most Limit started callbacks are outstanding;     *)
(* Add starts a callback or queues it, Done releases a slot and hands it   *)
(* to the oldest queued callback.  Callbacks are numbered in Add order.    *)
(***************************************************************************)
EXTENDS Integers, Sequences, FiniteSets

CONSTANTS Limit, MaxAdds

VARIABLES running,   \* number of started callbacks not yet done
          queue,     \* callbacks waiting for a slot
          started,   \* callbacks that have been started
          done,      \* callbacks that have called Done
          added      \* number of Add calls so far

vars == <<running, queue, started, done, added>>

TypeOK ==
    /\ running \in 0..MaxAdds
    /\ queue \in Seq(1..MaxAdds)
    /\ started \subseteq 1..MaxAdds /\ done \subseteq started

Init == running = 0 /\ queue = <<>> /\ started = {} /\ done = {} /\ added = 0

Add ==
    /\ added < MaxAdds
    /\ added' = added + 1
    /\ IF running >= Limit
       THEN queue' = Append(queue, added + 1) /\ UNCHANGED <<running, started>>
       ELSE running' = running + 1 /\ started' = started \cup {added + 1} /\ UNCHANGED queue
    /\ UNCHANGED done

Done(cb) ==
    /\ cb \in started \ done
    /\ done' = done \cup {cb}
    /\ IF queue = <<>>
       THEN running' = running - 1 /\ UNCHANGED <<queue, started>>
       ELSE queue' = Tail(queue) /\ started' = started \cup {Head(queue)} /\ UNCHANGED running
    /\ UNCHANGED added

Next == Add \/ \E cb \in 1..MaxAdds : Done(cb)

Spec == Init /\ [][Next]_vars /\ \A cb \in 1..MaxAdds : WF_vars(Done(cb))

-----------------------------------------------------------------------------
Bounded == running <= Limit
Saturated == queue # <<>> => running = Limit
Consistent == running = Cardinality(started \ done)
QueuedNotStarted == \A i \in DOMAIN queue : queue[i] \notin started
FIFO == \A i, j \in DOMAIN queue : i < j => queue[i] < queue[j]

(* every answer releases the next waiting one: whatever the answer order,  *)
(* every added callback is eventually started (given every started one is  *)
(* eventually done)                                                        *)
AllStart == \A cb \in 1..MaxAdds : (added >= cb) ~> (cb \in started)
=============================================================================
