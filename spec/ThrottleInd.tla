---------------------------- MODULE ThrottleInd ----------------------------
(***************************************************************************)
(* Inductive-invariant check of Throttle.tla with Apalache: the safety     *)
(* properties hold in every state that satisfies IndInv (not only in the   *)
(* states TLC reaches within MaxAdds), and IndInv is preserved by every    *)
(* step, for every Limit in 1..MaxLimit.                                   *)
(***************************************************************************)
EXTENDS Integers, Sequences, FiniteSets, Apalache

CONSTANTS
    \* @type: Int;
    Limit,
    \* @type: Int;
    MaxAdds

VARIABLES
    \* @type: Int;
    running,
    \* @type: Seq(Int);
    queue,
    \* @type: Set(Int);
    started,
    \* @type: Set(Int);
    done,
    \* @type: Int;
    added

INSTANCE Throttle

ConstInit == Limit \in 1..4 /\ MaxAdds \in 1..7

IndInv ==
    /\ added \in 0..MaxAdds
    /\ running \in 0..Limit
    /\ started \subseteq 1..added /\ done \subseteq started
    /\ running = Cardinality(started \ done)
    /\ Len(queue) <= MaxAdds
    /\ \A i \in DOMAIN queue : queue[i] \in 1..added /\ queue[i] \notin started
    /\ \A i, j \in DOMAIN queue : i < j => queue[i] < queue[j]
    /\ (queue # <<>> => running = Limit)

IndInit ==
    /\ added = Gen(1) /\ running = Gen(1)
    /\ started = Gen(7) /\ done = Gen(7) /\ queue = Gen(7)
    /\ IndInv

Safety == Bounded /\ Saturated /\ Consistent /\ QueuedNotStarted /\ FIFO
=============================================================================
