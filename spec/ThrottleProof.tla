--------------------------- MODULE ThrottleProof ---------------------------
(***************************************************************************)
(* TLAPS proof that the throttle never has more than Limit started         *)
(* callbacks outstanding, for every Limit and any number of callbacks      *)
(* (the bounded models ThrottleInd / Throttle.cfg fix MaxAdds).            *)
(* The actions are those of Throttle.tla without the MaxAdds bound.        *)
(***************************************************************************)
EXTENDS Integers, Sequences, TLAPS

CONSTANT Limit
ASSUME LimitNat == Limit \in Nat

VARIABLES running, queue, started, done, added
vars == <<running, queue, started, done, added>>

Init == running = 0 /\ queue = <<>> /\ started = {} /\ done = {} /\ added = 0

Add ==
    /\ added' = added + 1
    /\ IF running >= Limit
       THEN queue' = Append(queue, added + 1) /\ UNCHANGED <<running, started>>
       ELSE running' = running + 1 /\ started' = started \cup {added + 1} /\ UNCHANGED queue
    /\ UNCHANGED done

Done(cb) ==
    /\ cb \in started \ done
    /\ done' = done \cup {cb}
    /\ IF queue = <<>>
       THEN running' = running - 1 /\ UNCHANGED <<queue, started>>
       ELSE queue' = Tail(queue) /\ started' = started \cup {Head(queue)} /\ UNCHANGED running
    /\ UNCHANGED added

Next == Add \/ \E cb \in Nat : Done(cb)
Spec == Init /\ [][Next]_vars

Bounded == running <= Limit
Saturated == queue # <<>> => running = Limit

Inv == /\ running \in Int
       /\ queue \in Seq(Nat)
       /\ added \in Nat
       /\ Bounded
       /\ Saturated

THEOREM Safety == Spec => []Bounded
<1>1. Init => Inv
  BY LimitNat DEF Init, Inv, Bounded, Saturated
<1>2. Inv /\ [Next]_vars => Inv'
  <2> SUFFICES ASSUME Inv, [Next]_vars PROVE Inv'
    OBVIOUS
  <2>1. CASE Add
    <3>1. CASE running >= Limit
      <4>1. running = Limit
        BY <3>1, LimitNat DEF Inv, Bounded
      <4>2. queue' = Append(queue, added + 1) /\ running' = running /\ added' = added + 1
        BY <2>1, <3>1 DEF Add
      <4>3. queue' \in Seq(Nat) /\ queue' # <<>>
        BY <4>2 DEF Inv
      <4> QED
        BY <4>1, <4>2, <4>3, LimitNat DEF Inv, Bounded, Saturated
    <3>2. CASE ~(running >= Limit)
      <4>1. running' = running + 1 /\ queue' = queue /\ added' = added + 1
        BY <2>1, <3>2 DEF Add
      <4>2. running + 1 <= Limit
        BY <3>2, LimitNat DEF Inv
      <4>3. queue = <<>>
        BY <3>2, LimitNat DEF Inv, Saturated
      <4> QED
        BY <4>1, <4>2, <4>3, LimitNat DEF Inv, Bounded, Saturated
    <3> QED
      BY <3>1, <3>2
  <2>2. ASSUME NEW cb \in Nat, Done(cb) PROVE Inv'
    <3>1. CASE queue = <<>>
      <4>1. running' = running - 1 /\ queue' = queue /\ added' = added
        BY <2>2, <3>1 DEF Done
      <4> QED
        BY <4>1, <3>1, LimitNat DEF Inv, Bounded, Saturated
    <3>2. CASE queue # <<>>
      <4>1. queue' = Tail(queue) /\ running' = running /\ added' = added
        BY <2>2, <3>2 DEF Done
      <4>2. running = Limit
        BY <3>2 DEF Inv, Saturated
      <4>3. Tail(queue) \in Seq(Nat)
        BY <3>2 DEF Inv
      <4> QED
        BY <4>1, <4>2, <4>3, LimitNat DEF Inv, Bounded, Saturated
    <3> QED
      BY <3>1, <3>2
  <2>3. CASE UNCHANGED vars
    BY <2>3 DEF vars, Inv, Bounded, Saturated
  <2> QED
    BY <2>1, <2>2, <2>3 DEF Next
<1>3. Inv => Bounded
  BY DEF Inv
<1> QED
  BY <1>1, <1>2, <1>3, PTL DEF Spec
=============================================================================
