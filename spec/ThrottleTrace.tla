--------------------------- MODULE ThrottleTrace ---------------------------
(* Validates recorded executions of the real rescache.Throttle (driven       *)
(* directly, notes taken under its mutex) against Throttle.tla: every        *)
(* recorded Add / Done must be the corresponding action of the specification *)
(* and leave the recorded running / queue-length values and started set.     *)
EXTENDS Integers, Sequences, FiniteSets, TLC, Json, SequencesExt

Trace == ndJsonDeserialize("trace.ndjson")

VARIABLES l, limit, running, queue, started, done, added, viol
vars == <<l, limit, running, queue, started, done, added, viol>>


V(why) == [p |-> "C19", l |-> l, why |-> why]

Init == l = 1 /\ limit = 0 /\ running = 0 /\ queue = <<>> /\ started = {} /\ done = {} /\ added = 0 /\ viol = {} /\ TLCSet(1, FALSE)

Finish(vs) == JsonSerialize("viol.json", SetToSeq(vs)) /\ TLCSet(1, TRUE)

Step(r) ==
    CASE r.op = "reset" ->
            /\ limit' = r.limit /\ running' = 0 /\ queue' = <<>> /\ started' = {} /\ done' = {} /\ added' = 0
            /\ viol' = viol
      [] r.op = "add" ->
            LET q2 == IF running >= limit THEN Append(queue, added + 1) ELSE queue
                r2 == IF running >= limit THEN running ELSE running + 1
                s2 == IF running >= limit THEN started ELSE started \cup {added + 1}
            IN /\ added' = added + 1 /\ queue' = q2 /\ running' = r2 /\ started' = s2 /\ UNCHANGED <<limit, done>>
               /\ viol' = viol \cup
                    (IF r.cb # added + 1 THEN {V("harness numbering")} ELSE {})
                    \cup (IF r.running # r2 \/ r.qlen # Len(q2) THEN {V("Add left running/queue " \o ToString(<<r.running, r.qlen>>) \o ", specification says " \o ToString(<<r2, Len(q2)>>))} ELSE {})
                    \cup (IF Range(r.ran) # s2 \ started THEN {V("Add started " \o ToString(r.ran) \o ", specification says " \o ToString(s2 \ started))} ELSE {})
                    \cup (IF r2 > limit THEN {V("more than limit callbacks running")} ELSE {})
      [] r.op = "done" ->
            LET q2 == IF queue = <<>> THEN queue ELSE Tail(queue)
                r2 == IF queue = <<>> THEN running - 1 ELSE running
                s2 == IF queue = <<>> THEN started ELSE started \cup {Head(queue)}
            IN /\ done' = done \cup {r.cb} /\ queue' = q2 /\ running' = r2 /\ started' = s2 /\ UNCHANGED <<limit, added>>
               /\ viol' = viol \cup
                    (IF r.cb \notin started \ done THEN {V("harness called Done for a callback that is not running")} ELSE {})
                    \cup (IF r.running # r2 \/ r.qlen # Len(q2) THEN {V("Done left running/queue " \o ToString(<<r.running, r.qlen>>) \o ", specification says " \o ToString(<<r2, Len(q2)>>))} ELSE {})
                    \cup (IF Range(r.ran) # s2 \ started THEN {V("Done started " \o ToString(r.ran) \o ", specification says " \o ToString(s2 \ started))} ELSE {})
      [] r.op = "end" ->
            /\ UNCHANGED <<limit, running, queue, started, done, added>>
            /\ viol' = viol \cup (IF queue # <<>> /\ running < limit THEN {V("callbacks left waiting although a slot is free")} ELSE {})

Next ==
    /\ l <= Len(Trace)
    /\ Step(Trace[l])
    /\ l' = l + 1
    /\ (l = Len(Trace) => Finish(viol'))

Spec == Init /\ [][Next]_vars
Accepted == TLCGet(1) = TRUE
=============================================================================
