----------------------------- MODULE AccessCheck -----------------------------
EXTENDS ResAccess, Json, TLC, Sequences, FiniteSets
T == ndJsonDeserialize("table.ndjson")
(* decode errors and the missing-result error are internal errors of the gateway: any code but a grant *)
Match(got, exp) == IF exp \in {"decode", "missing"} THEN got # "ok" ELSE got = exp
RowOK(r) == /\ Match(r.canget, Verdict(r, "get"))
            /\ Match(r.calla, Verdict(r, "a")) /\ Match(r.callb, Verdict(r, "b")) /\ Match(r.callc, Verdict(r, "c"))
Bad == {i \in 1..Len(T) : ~RowOK(T[i])}
Objs == {<<T[i].get, T[i].call, T[i].err>> : i \in {j \in 1..Len(T) : T[j].res = "object"}}
Complete == Cardinality(Objs) = 6 * 8 * 5 /\ \A x \in {"absent", "null", "array"} : \E i \in 1..Len(T) : T[i].res = x
Result == [rows |-> Len(T), bad |-> {[row |-> i, rec |-> T[i], exp |-> <<Verdict(T[i], "get"), Verdict(T[i], "a"), Verdict(T[i], "b"), Verdict(T[i], "c")>>] : i \in Bad}, complete |-> Complete]
ASSUME JsonSerialize("result.json", <<Result>>)
=============================================================================
