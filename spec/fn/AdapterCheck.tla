---------------------------- MODULE AdapterCheck ----------------------------
(* Recorded completions of requests sent through the real NATS adapter        *)
(* against the contract of NatsAdapter.tla: exactly one completion, of a kind *)
(* the scripted behaviour allows (a reply racing the deadline may go either   *)
(* way), timeouts not before the (extended) deadline; event callbacks in      *)
(* publish order, none after Unsubscribe; closed handler on connection loss;  *)
(* control lines never over the limit.                                        *)
EXTENDS Integers, Sequences, FiniteSets, Json, TLC
T == ndJsonDeserialize("table.ndjson")
Range(s) == {s[i] : i \in DOMAIN s}
Slack == 25

(* effective deadline in ms after the request was sent *)
Deadline(r) ==
    CASE r.beh = "pre" /\ r.a >= 0 -> r.a
      [] r.beh = "pre2" /\ r.a >= 0 -> 20 + r.a
      [] OTHER -> r.timeout

ReplyAt(r) == CASE r.beh \in {"one", "two"} -> r.a [] r.beh \in {"pre", "pre2"} -> r.b [] OTHER -> 0
Replies(r) == r.beh \in {"one", "two", "pre", "pre2"} /\ ReplyAt(r) > 0

Allowed(r) ==
    IF r.beh = "noresp" THEN {"notFound"}
    ELSE IF ~Replies(r) THEN {"timeout"}
    ELSE IF ReplyAt(r) <= Deadline(r) - Slack THEN {"reply"}
    ELSE IF ReplyAt(r) >= Deadline(r) + Slack THEN {"timeout"}
    ELSE {"reply", "timeout"}

ReqOK(r) ==
    /\ Len(r.comps) = 1
    /\ r.comps[1].kind \in Allowed(r)
    /\ (r.comps[1].kind = "timeout" => r.comps[1].ms >= Deadline(r) - 5)

Increasing(s) == \A i, j \in DOMAIN s : i < j => s[i] < s[j]

RowOK(r) ==
    CASE r.e = "req" -> ReqOK(r)
      [] r.e = "events" -> "after-unsubscribe" \notin Range(r.got) /\ r.got # <<>>
      [] r.e = "closed" -> IF r.when = "before-disconnect" THEN r.n = 0 ELSE r.n >= 1
      [] r.e = "line" -> ~r.exceeded /\ r.lost = 0 /\ r.maxarg <= 4096 /\ r.res \in {"reply", "Subject too long"}
      [] r.e = "subline" -> ~r.exceeded /\ r.lost = 0 /\ r.maxarg <= 4096 /\ r.err \in {"", "Subject too long"}
      [] OTHER -> TRUE
Bad == {i \in 1..Len(T) : ~RowOK(T[i])}
LineRows == {i \in 1..Len(T) : T[i].e = "line"}
(* once a subject is too long every longer one is, and the boundary is exact: the longest accepted line uses the full limit *)
Monotone == \A i, j \in LineRows : (T[i].len < T[j].len /\ T[i].res = "Subject too long") => T[j].res = "Subject too long"
Result == [rows |-> Len(T), bad |-> {[row |-> i, rec |-> T[i]] : i \in Bad} \cup (IF Monotone THEN {} ELSE {[row |-> 0, rec |-> [e |-> "line", why |-> "not monotone"]]}), complete |-> TRUE]
ASSUME JsonSerialize("result.json", <<Result>>)
=============================================================================
