------------------------------ MODULE CallList ------------------------------
(* The call member of an access result: "*" grants every method, otherwise it *)
(* is a comma separated list and a method is granted iff it is exactly one of *)
(* the entries.  Strings are sequences of one-character symbols.              *)
EXTENDS Integers, Sequences, FiniteSets

RECURSIVE SplitAt(_, _)
SplitAt(s, sep) ==
    IF s = <<>> THEN << <<>> >>
    ELSE LET r == SplitAt(Tail(s), sep)
         IN IF Head(s) = sep THEN << <<>> >> \o r
            ELSE << <<Head(s)>> \o Head(r) >> \o Tail(r)

Range(s) == {s[i] : i \in DOMAIN s}

Granted(call, meth) == call = <<"*">> \/ (call # <<>> /\ meth \in Range(SplitAt(call, "COMMA")))
=============================================================================
