--------------------------- MODULE CallListCheck ---------------------------
EXTENDS CallList, Json, TLC
T == ndJsonDeserialize("table.ndjson")
Bad == {i \in 1..Len(T) : T[i].ok # Granted(T[i].call, T[i].meth)}
Alphabet == {"a", "b", "COMMA", "*"}
MaxLen == 5
Complete == \A k \in 0..3 : [1..k -> Alphabet] \subseteq {T[i].call : i \in 1..Len(T)}
Result == [rows |-> Len(T), bad |-> {[row |-> i, rec |-> T[i]] : i \in Bad}, complete |-> Complete]
ASSUME JsonSerialize("result.json", <<Result>>)
=============================================================================
