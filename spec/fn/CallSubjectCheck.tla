-------------------------- MODULE CallSubjectCheck --------------------------
(* C05 on the table of subjects: a call reaches a service only for the resource whose access answer it was checked   *)
(* against, under the very method name that was checked.  On every row (WebSocket call / new requests, HTTP POST and  *)
(* mapped PUT / DELETE / PATCH paths, with percent-encoded characters and URL queries) the access request sent names  *)
(* the resource of the call request, and the method is one subject token - a method that would be read as part of    *)
(* the resource name ("a.b" behind the resource "r" is method "b" of resource "r.a" to the service) never gets out.  *)
EXTENDS ResSubject, Json, TLC
T == ndJsonDeserialize("table.ndjson")
Rows == 2..Len(T)
Calls(r) == {x \in Range(r.subs) : x.t = "call"}
Asked(r) == {x.n : x \in {y \in Range(r.subs) : y.t = "access"}}
RowOK(r) == \A x \in Calls(r) : x.n \in Asked(r) /\ ~x.bad /\ "DOT" \notin Range(x.m) /\ x.m # <<>>
Bad == {i \in Rows : ~RowOK(T[i])}
NCalls == Cardinality({i \in Rows : Calls(T[i]) # {}})
Result == [rows |-> Len(T) - 1, bad |-> {[row |-> i, rec |-> T[i]] : i \in Bad}, complete |-> NCalls > 0]
ASSUME JsonSerialize("result.json", <<Result>>)
=============================================================================
