------------------------------- MODULE ConnGC -------------------------------
(***************************************************************************)
(* The connection's reference-counting collector (server/wsConnGC.go,      *)
(* wsConn.removeCount, Subscription.Dispose / Unsend) over a subscription  *)
(* table T: rid |-> [st, d, i, is, refs, gone, rs], where st is the         *)
(* subscription state (0 disposed, 2 loaded, 3 ready, 5 sent), d / i / is   *)
(* the direct / indirect / indirectsent counts and refs the set of rids    *)
(* the resource references.  Collect is the algorithm as implemented;      *)
(* Retained is the property the collector exists for (C02): the gateway's  *)
(* notion of "sent" coincides with what a protocol-following client         *)
(* retains, and nothing a retained resource references is gone.            *)
(***************************************************************************)
EXTENDS Integers, Sequences, FiniteSets

Sent == 5
Ready == 3
Disposed == 0

Range(s) == {s[i] : i \in DOMAIN s}
Refs(T, n) == Range(T[n].refs)

(* nodes the traversal visits from root: through nodes without direct subscriptions *)
RECURSIVE VisFrom(_, _, _)
VisFrom(T, S, done) ==
    LET new == (UNION {Refs(T, n) : n \in S} \ done)
        nd == {n \in new : T[n].d = 0}
    IN IF nd = {} THEN done ELSE VisFrom(T, nd, done \cup nd)

Vis(T, root) == VisFrom(T, {root}, {root})

InEdges(T, V, n) == Cardinality({m \in V : n \in Refs(T, m)})

(* the table after removeCount(target, direct, sent, 1, tryDelete = TRUE) *)
Collect(T0, target, direct, sentArg) ==
    LET tg == T0[target]
    IN IF tg.d + tg.i + tg.is = 0 THEN T0
       ELSE
       LET T == [T0 EXCEPT ![target] = IF direct THEN [@ EXCEPT !.d = @ - 1]
                                       ELSE [@ EXCEPT !.i = @ - 1, !.is = IF sentArg THEN @ - 1 ELSE @]]
       IN IF T[target].d > 0 THEN T
          ELSE
          LET V == Vis(T, target)
              sent == T[target].st = Sent
              sd == IF sent THEN 1 ELSE 0
              ti(n) == T[n].i - InEdges(T, V, n)
              tis(n) == T[n].is - sd * InEdges(T, V, n)
          IN IF ti(target) > 0 /\ ~(sent /\ tis(target) = 0) THEN T
             ELSE
             LET RECURSIVE KeepFrom(_, _)
                 KeepFrom(S, done) ==
                     LET new == (UNION {Refs(T, n) : n \in S} \cap V) \ done
                     IN IF new = {} THEN done ELSE KeepFrom(new, done \cup new)
                 K0 == {n \in V : ti(n) > 0}
                 K == KeepFrom(K0, K0)
                 \* a kept node stays sent if a sent parent outside the visited set refers to it (tis > 0), or a kept node
                 \* that stays sent does; the other kept nodes are unsent (before fix "tryDelete: children of kept sent
                 \* references stay sent" this was {n \in K : sent /\ tis(n) = 0} - finding KF-U)
                 RECURSIVE SentFrom(_, _)
                 SentFrom(S, done) ==
                     LET new == ((UNION {Refs(T, n) : n \in S}) \cap K) \ done
                     IN IF new = {} THEN done ELSE SentFrom(new, done \cup new)
                 S0 == {n \in K0 : ~(sent /\ tis(n) = 0)}
                 U == IF sent THEN K \ SentFrom(S0, S0) ELSE {}
                 D == V \ K
                 \* Dispose of every deleted node: children lose one indirect count, and one indirectsent count
                 \* (while positive) if the deleted node had been sent; no further collection
                 lost(n) == Cardinality({m \in D : T[m].rs /\ n \in Refs(T, m)})
                 lostSent(n) == Cardinality({m \in D : T[m].rs /\ T[m].st = Sent /\ n \in Refs(T, m)})
                 \* Unsend: indirectsent of every child that is (still) sent and has a positive count goes down by one
                 T1 == [n \in DOMAIN T |->
                          IF n \in D THEN [T[n] EXCEPT !.st = Disposed, !.gone = TRUE, !.refs = IF T[n].rs THEN <<>> ELSE @, !.rs = FALSE]
                          ELSE IF n \in U THEN [T[n] EXCEPT !.st = Ready, !.is = 0, !.i = @ - lost(n)]
                          ELSE [T[n] EXCEPT !.i = IF T[n].d + T[n].i + T[n].is = 0 THEN @ ELSE @ - lost(n)]]
                 dec(n) == Cardinality({u \in U : n \in Refs(T, u)})
                 Sub0(a, b) == IF a >= b THEN a - b ELSE 0
             IN [n \in DOMAIN T1 |->
                   IF n \in D \/ n \in U THEN T1[n]
                   ELSE IF T1[n].st # Sent THEN [T1[n] EXCEPT !.is = IF T[n].d + T[n].i + T[n].is = 0 THEN @ ELSE Sub0(@, lostSent(n))]
                   ELSE [T1[n] EXCEPT !.is = IF T[n].d + T[n].i + T[n].is = 0 THEN Sub0(@, dec(n)) ELSE Sub0(@, dec(n) + lostSent(n))]]

-----------------------------------------------------------------------------
(* What the client retains according to the table: reachable from direct    *)
(* subscriptions that have been sent, through references of sent resources. *)
RECURSIVE HeldFrom(_, _, _)
HeldFrom(T, S, done) ==
    LET new == UNION {Refs(T, n) : n \in {m \in S : ~T[m].gone /\ T[m].st = Sent}} \ done
    IN IF new = {} THEN done ELSE HeldFrom(T, new, done \cup new)

ClientHeld(T) ==
    LET roots == {n \in DOMAIN T : ~T[n].gone /\ T[n].d > 0 /\ T[n].st = Sent}
    IN HeldFrom(T, roots, roots)

Retained(T) ==
    /\ \A n \in ClientHeld(T) : ~T[n].gone /\ T[n].st = Sent     \* no dangling reference at the client
    /\ \A n \in DOMAIN T : (~T[n].gone /\ T[n].st = Sent) => n \in ClientHeld(T)   \* no stray "sent" resource
    /\ \A n \in DOMAIN T : ~T[n].gone => \A m \in Refs(T, n) : ~T[m].gone          \* live subscriptions reference live ones

(* survivors and their observable fields *)
View(T) == [n \in {m \in DOMAIN T : ~T[m].gone} |-> [st |-> T[n].st, d |-> T[n].d, i |-> T[n].i, is |-> T[n].is, refs |-> Range(T[n].refs)]]
=============================================================================
