------------------------------- MODULE GCCheck -------------------------------
(* For every recorded (table, release operation, table after the real collector):
   - drift: the real result differs from the transcribed algorithm (ConnGC!Collect);
   - bad:   the real result breaks the retention property although the transcribed
            algorithm keeps it on this input (a regression of the real collector);
   - known: both break it (finding KF-U: the algorithm itself miscounts). *)
EXTENDS ConnGC, Json, TLC
T == ndJsonDeserialize("table.ndjson")
Rows == 2..Len(T)
Model(r) == Collect(r.pre, r.op.n, r.op.k = "direct", r.op.sent)
Drift == {i \in Rows : View(Model(T[i])) # View(T[i].post)}
Bad == {i \in Rows : ~Retained(T[i].post) /\ Retained(Model(T[i]))}
Known == {i \in Rows : ~Retained(T[i].post) /\ ~Retained(Model(T[i]))}
PreOK == \A i \in Rows : T[i].op.k = "ref" \/ Retained(T[i].pre)
Result == [rows |-> Len(T) - 1, bad |-> {[row |-> i, rec |-> T[i]] : i \in Bad}, complete |-> PreOK,
           drift |-> Cardinality(Drift), driftsample |-> {[row |-> i, rec |-> T[i], model |-> View(Model(T[i]))] : i \in {j \in Drift : \A k \in Drift : j <= k}},
           known |-> Cardinality(Known)]
ASSUME JsonSerialize("result.json", <<Result>>)
=============================================================================
