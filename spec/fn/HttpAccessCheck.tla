--------------------------- MODULE HttpAccessCheck ---------------------------
(* What an access response grants, seen from outside: the verdict of ResAccess decides whether an HTTP GET is      *)
(* served the resource and whether an HTTP POST reaches the service as a call - whatever meta member the access    *)
(* response carries besides (a meta object without a status of its own changes nothing about the grant).            *)
EXTENDS ResAccess, Json, TLC, Sequences, FiniteSets
T == ndJsonDeserialize("table.ndjson")
Range(s) == {s[i] : i \in DOMAIN s}
RowOK(r) ==
    LET v == Verdict(r, r.want) IN
    IF v = "ok"
    THEN r.status = 200 /\ r.reqs = (IF r.want = "get" THEN r.reqs ELSE <<"access", "call">>) /\ (r.want = "get" => Range(r.reqs) = {"access", "get"})
    ELSE /\ r.status >= 400          \* refused with an error status (which one is C17's business: table httpstatus)
         /\ ~r.leak                  \* neither the resource's data nor the call's result in the body
         /\ "call" \notin Range(r.reqs)
Bad == {i \in 1..Len(T) : ~RowOK(T[i])}
Combos == {<<T[i].res, T[i].get, T[i].call, T[i].err, T[i].meta, T[i].want>> : i \in 1..Len(T)}
Complete == Cardinality(Combos) = (3 * 3 * 3 + 3) * 4 * 3
Result == [rows |-> Len(T), bad |-> {[row |-> i, rec |-> T[i], exp |-> Verdict(T[i], T[i].want)] : i \in Bad}, complete |-> Complete]
ASSUME JsonSerialize("result.json", <<Result>>)
=============================================================================
