---------------------------- MODULE HttpConnCheck ----------------------------
(* What the temporary connection of an HTTP request leaves behind (C11: once a connection is gone nothing is       *)
(* outstanding or registered on its behalf; C09: what it used is given back and evicted).  One row per request and  *)
(* per outcome of header auth, access, the target's get / the call (granted, refused, failed, timed out, answered   *)
(* by a meta status of its own).                                                                                    *)
EXTENDS Json, TLC, Sequences, FiniteSets, Integers
T == ndJsonDeserialize("table.ndjson")
RowOK(r) ==
    /\ r.status # 0            \* the request was answered
    /\ r.pending = 0           \* no service request is left unanswered once it is (none was sent behind the response)
    /\ r.connsubs = 0          \* the connection's own subject is unsubscribed
    /\ r.conns = 0             \* it is not (or no longer) among the service's connections
    /\ r.count = 0             \* no cached resource counts it as a subscriber
    /\ r.cacheAfter = 0 /\ r.subsAfter = 0 /\ r.pendingAfter = 0   \* and after the eviction delay nothing is left at all
Bad == {i \in 1..Len(T) : ~RowOK(T[i])}
Combos == {<<T[i].method, T[i].target, T[i].hauth, T[i].access, T[i].final>> : i \in 1..Len(T)}
Complete == Cardinality(Combos) = 2 * 2 * 5 * (5 * 4 + 1)
Result == [rows |-> Len(T), bad |-> {[row |-> i, rec |-> T[i]] : i \in Bad}, complete |-> Complete]
ASSUME JsonSerialize("result.json", <<Result>>)
=============================================================================
