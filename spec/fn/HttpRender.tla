----------------------------- MODULE HttpRender -----------------------------
(***************************************************************************)
(* The HTTP GET body of a resource: the recursive expansion of the cached  *)
(* resource graph G (rid |-> [k, m, c]) as an abstract JSON tree           *)
(* ([o |-> fields] object, [a |-> elements] array, [p |-> raw] primitive). *)
(* Referenced resources are nested in place - wrapped as {href, model |    *)
(* collection | error} in the json encoding, bare in jsonflat; soft        *)
(* references and references back into the current expansion path are      *)
(* href only; data values are unwrapped; failed references render as their *)
(* error.  The expansion terminates because the path only grows.           *)
(***************************************************************************)
EXTENDS Integers, Sequences, FiniteSets, TLC

Prim(raw) == [p |-> raw]
Href(rid) == [o |-> ("href" :> Prim("\"/api/" \o rid \o "\""))]
NotFound == [o |-> ("code" :> Prim("\"system.notFound\"") @@ "message" :> Prim("\"system.notFound\""))]

RECURSIVE Render(_, _, _, _, _)
RenderVal(enc, G, v, path) ==
    CASE v.t = "r" -> Render(enc, G, v.v, path, TRUE)
      [] v.t = "s" -> Href(v.v)
      [] v.t = "d" -> v.tree
      [] OTHER -> Prim(v.v)

Render(enc, G, rid, path, nested) ==
    LET r == G[rid]
        content == IF r.k = "m" THEN [o |-> [key \in DOMAIN r.m |-> RenderVal(enc, G, r.m[key], path \cup {rid})]]
                   ELSE [a |-> [i \in DOMAIN r.c |-> RenderVal(enc, G, r.c[i], path \cup {rid})]]
        wrap == enc = "json" /\ nested
    IN IF rid \in path THEN Href(rid)
       ELSE IF r.k = "nf" THEN (IF wrap THEN [o |-> Href(rid).o @@ ("error" :> NotFound)] ELSE NotFound)
       ELSE IF wrap THEN [o |-> Href(rid).o @@ ((IF r.k = "m" THEN "model" ELSE "collection") :> content)]
       ELSE content
=============================================================================
