----------------------------- MODULE HttpStatus -----------------------------
(* HTTP status of a RES error, service meta status, protected headers, CORS. *)
EXTENDS Integers, Sequences, FiniteSets

StatusOf(code) ==
    CASE code \in {"system.notFound", "system.methodNotFound", "system.timeout"} -> 404
      [] code = "system.accessDenied" -> 401
      [] code = "system.forbidden" -> 403
      [] code = "system.methodNotAllowed" -> 405
      [] code = "system.subjectTooLong" -> 414
      [] code = "system.internalError" -> 500
      [] code = "system.serviceUnavailable" -> 503
      [] OTHER -> 400

Direct(n) == n >= 300 /\ n <= 599

Protected == {"Content-Type", "Access-Control-Allow-Origin", "Access-Control-Allow-Credentials",
              "Sec-Websocket-Extensions", "Sec-Websocket-Protocol", "Sec-Websocket-Accept"}
=============================================================================
