--------------------------- MODULE HttpStatusCheck ---------------------------
EXTENDS HttpStatus, Json, TLC
T == ndJsonDeserialize("table.ndjson")
Range(s) == {s[i] : i \in DOMAIN s}
Hdr(r, k) == IF k \in DOMAIN r.hdr THEN r.hdr[k] ELSE <<>>
BaseStatus(r) == IF r.base = "ok" THEN 200 ELSE 400   \* the base error is test.custom
RowOK(r) ==
    CASE r.kind = "code" -> r.status = StatusOf(r.code)
      [] r.kind = "meta" ->
            IF Direct(r.mstatus)
            THEN /\ r.status = r.mstatus
                 /\ CASE r.on = "auth" -> r.reqs = <<"auth">>
                      [] r.on = "access" /\ r.method = "POST" -> r.reqs = <<"access">>
                      [] r.on = "access" -> Range(r.reqs) \subseteq {"access", "get"}
                      [] OTHER -> r.reqs = <<"access", "call">>
            ELSE CASE r.on = "auth" -> r.status = 200 /\ Len(r.reqs) = 3 /\ r.reqs[1] = "auth" /\ Range(r.reqs) = {"auth", "access", "get"}   \* header-auth result is not the request's result
                   [] r.on = "access" /\ r.method = "POST" -> r.status = BaseStatus(r) /\ r.reqs = (IF r.base = "ok" THEN <<"access", "call">> ELSE <<"access">>)
                   [] r.on = "access" -> r.status = BaseStatus(r)
                   [] OTHER -> r.status = BaseStatus(r)
      [] r.kind = "hdr" ->
            LET got == Range(Hdr(r, r.cname))
                meta == {"v1", "v2", "w1"}
            IN /\ r.status = (IF r.direct THEN 404 ELSE 200)
               /\ IF r.cname \in Protected THEN got \cap meta = {}
                  \* Set-Cookie values accumulate: every supplied value once, in the order supplied
                  ELSE IF r.cname = "Set-Cookie" THEN Hdr(r, r.cname) = (IF r.on = "auth+call" THEN <<"w1", "v1", "v2">> ELSE <<"v1", "v2">>)
                  ELSE Hdr(r, r.cname) = <<"v1", "v2">>
               /\ (r.body # "" => Hdr(r, "Content-Type") = <<"application/json; charset=utf-8">>)
      [] r.kind = "hdrdup" ->
            \* two spellings of one header name in one meta object: both values reach the response (in either order)
            r.status = (IF r.direct THEN 404 ELSE 200) /\ {"d1", "d2"} = Range(Hdr(r, r.cname)) /\ Len(Hdr(r, r.cname)) = 2
      [] r.kind = "cors" ->
            \* "" = no Origin header; "EMPTY" = an Origin header with an empty value (not a listed origin)
            LET ok == r.origin = "" \/ r.origin = "null" \/ r.lorigin \in {"http://a", "http://c"}
            IN IF r.method = "OPTIONS"
               THEN r.status = 200 /\ r.reqs = <<>> /\ (~ok => Hdr(r, "Access-Control-Allow-Origin") # <<r.origin>>)
               ELSE IF ok THEN r.status = 200 /\ r.reqs # <<>>
                    ELSE r.status = 403 /\ r.reqs = <<>>
Bad == {i \in 1..Len(T) : ~RowOK(T[i])}
Result == [rows |-> Len(T), bad |-> {[row |-> i, rec |-> T[i]] : i \in Bad}, complete |-> TRUE]
ASSUME JsonSerialize("result.json", <<Result>>)
=============================================================================
