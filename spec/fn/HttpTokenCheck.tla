--------------------------- MODULE HttpTokenCheck ---------------------------
(* The token carried by the service requests of one HTTP call (C10: every request made on behalf of a connection   *)
(* carries that connection's token).  The connection's token is what the last token event addressed to it set;     *)
(* the events are delivered while the header-auth request (init) and the access request (evt) are outstanding.     *)
(* Every request carries the id of the temporary connection and is marked as made for an HTTP request.             *)
EXTENDS Json, TLC, Sequences, FiniteSets, Integers
T == ndJsonDeserialize("table.ndjson")
\* token of the connection when the i-th request is sent: requests are [auth,] access, call
Expected(r) ==
    LET afterAuth == r.init
        afterAccess == IF r.evt = "none" THEN afterAuth ELSE r.evt
        R(t, tok) == [t |-> t, tok |-> tok, cid |-> TRUE, http |-> TRUE]   \* its own connection id, marked as an HTTP request
    IN IF r.init = "nil" THEN <<R("access", "nil"), R("call", afterAccess)>>
       ELSE <<R("auth", "nil"), R("access", afterAuth), R("call", afterAccess)>>
RowOK(r) == r.reqs = Expected(r) /\ r.status = 200
Bad == {i \in 1..Len(T) : ~RowOK(T[i])}
Combos == {<<T[i].method, T[i].init, T[i].evt>> : i \in 1..Len(T)}
Result == [rows |-> Len(T), bad |-> {[row |-> i, rec |-> T[i], exp |-> Expected(T[i])] : i \in Bad}, complete |-> Cardinality(Combos) = 12]
ASSUME JsonSerialize("result.json", <<Result>>)
=============================================================================
