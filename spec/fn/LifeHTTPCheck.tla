--------------------------- MODULE LifeHTTPCheck ---------------------------
(***************************************************************************)
(* C20 with the real HTTP listener (rows of harness/gw/lifehttp_test.go):   *)
(* restart - after Stop the service starts again at once, and the new run   *)
(* is not stopped by anything the old run left behind (it serves, and stops *)
(* when asked);  listenfail - a listener that cannot be opened makes the    *)
(* service fail-stop within its bounds, reporting the cause, with the       *)
(* messaging client closed, and a later Start works.                        *)
(***************************************************************************)
EXTENDS Json, TLC, Sequences, Integers
T == ndJsonDeserialize("table.ndjson")
RowOK(r) ==
    CASE r.kind = "restart" ->
            /\ "startErr" \notin DOMAIN r
            /\ r.firstStopped /\ r.restartErr = "<nil>"
            /\ ~r.secondStoppedByItself /\ r.served = 404
            /\ r.secondStopped
      [] r.kind = "listenfail" ->
            /\ r.stopped /\ r.mqClosed
            /\ r.restartErr = "<nil>" /\ r.served = 404 /\ r.secondStopped
      [] OTHER -> FALSE
Bad == {i \in 1..Len(T) : ~RowOK(T[i])}
Result == [rows |-> Len(T), bad |-> {[row |-> i, rec |-> T[i]] : i \in Bad}, complete |-> Len(T) >= 3]
ASSUME JsonSerialize("result.json", <<Result>>)
=============================================================================
