--------------------------- MODULE ModelDiffCheck ---------------------------
EXTENDS ResDiff, Json, TLC
T == ndJsonDeserialize("table.ndjson")
Bad == {i \in 2..Len(T) : ~ModelRowOK(T[i])}
Complete == Len(T) - 1 = T[1].count * T[1].count
Result == [rows |-> Len(T) - 1, bad |-> {[row |-> i, rec |-> T[i]] : i \in Bad}, complete |-> Complete]
ASSUME JsonSerialize("result.json", <<Result>>)
=============================================================================
