------------------------------- MODULE Origin -------------------------------
(* CORS allow-list: an origin is allowed iff it equals a listed origin        *)
(* ignoring ASCII case.  Strings are sequences of symbols, each standing for  *)
(* a distinct byte sequence; only "H"/"h" and "A"/"a" are ASCII case pairs.   *)
EXTENDS Integers, Sequences, FiniteSets

Fold(x) == CASE x = "H" -> "h" [] x = "A" -> "a" [] OTHER -> x
FoldSeq(s) == [i \in DOMAIN s |-> Fold(s[i])]
Allowed(list, origin) == \E a \in list : FoldSeq(a) = FoldSeq(origin)
=============================================================================
