----------------------------- MODULE OriginCheck -----------------------------
EXTENDS Origin, Json, TLC
T == ndJsonDeserialize("table.ndjson")
Range(s) == {s[i] : i \in DOMAIN s}
Origins == T[Len(T)].origins
Rows == 2..(Len(T) - 1)
List(r) == IF "allowed2" \in DOMAIN r THEN {r.allowed, r.allowed2} ELSE {r.allowed}
(* every row was tried against the first r.upto origins (all of them up to maxlen; entries of up to two symbols *)
(* also against the origins one symbol longer)                                                              *)
Want(r) == {k \in 1..r.upto : Allowed(List(r), Origins[k])}
RowOK(r) == Range(r.m) = Want(r)
Bad == {i \in Rows : ~RowOK(T[i])}
Base == {Origins[k] : k \in 1..T[1].count}
Complete == UNION {[1..k -> Range(T[1].alphabet)] : k \in 1..T[1].maxlen} = Base
                /\ Base \subseteq {T[i].allowed : i \in Rows}
                /\ (Len(Origins) > T[1].count => {Origins[k] : k \in (T[1].count + 1)..Len(Origins)} = [1..(T[1].maxlen + 1) -> Range(T[1].alphabet)])
Result == [rows |-> Len(T) - 2,
           bad |-> {[row |-> i, rec |-> [allowed |-> List(T[i]),
                                         wrongly |-> {Origins[k] : k \in Range(T[i].m) \ Want(T[i])},
                                         missing |-> {Origins[k] : k \in Want(T[i]) \ Range(T[i].m)}]] : i \in Bad},
           complete |-> Complete]
ASSUME JsonSerialize("result.json", <<Result>>)
=============================================================================
