----------------------------- MODULE OriginCheck -----------------------------
EXTENDS Origin, Json, TLC
T == ndJsonDeserialize("table.ndjson")
Range(s) == {s[i] : i \in DOMAIN s}
Origins == T[Len(T)].origins
Rows == 2..(Len(T) - 1)
List(r) == IF "allowed2" \in DOMAIN r THEN {r.allowed, r.allowed2} ELSE {r.allowed}
RowOK(r) == {Origins[k] : k \in Range(r.m)} = {x \in Range(Origins) : Allowed(List(r), x)}
Bad == {i \in Rows : ~RowOK(T[i])}
Complete == UNION {[1..k -> Range(T[1].alphabet)] : k \in 1..T[1].maxlen} = Range(Origins)
                /\ Range(Origins) \subseteq {T[i].allowed : i \in Rows}
Result == [rows |-> Len(T) - 2,
           bad |-> {[row |-> i, rec |-> [allowed |-> List(T[i]),
                                         wrongly |-> {Origins[k] : k \in Range(T[i].m)} \ {x \in Range(Origins) : Allowed(List(T[i]), x)},
                                         missing |-> {x \in Range(Origins) : Allowed(List(T[i]), x)} \ {Origins[k] : k \in Range(T[i].m)}]] : i \in Bad},
           complete |-> Complete]
ASSUME JsonSerialize("result.json", <<Result>>)
=============================================================================
