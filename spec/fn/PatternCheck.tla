---------------------------- MODULE PatternCheck ----------------------------
(* Checks the table recorded from the real ParseResourcePattern / IsValid /  *)
(* Match against ResPattern, including completeness of the enumerated domain. *)
EXTENDS ResPattern, Json, TLC

T == ndJsonDeserialize("table.ndjson")
Hdr == T[1]
Names == Hdr.names
Range(s) == {s[i] : i \in DOMAIN s}

RowOK(r) ==
    /\ r.valid = ValidPattern(r.p)
    /\ {Names[k] : k \in Range(r.m)} = {n \in Range(Names) : Match(r.p, n)}

Bad == {i \in 2..Len(T) : ~RowOK(T[i])}

Alphabet == Range(Hdr.alphabet)
Domain == UNION {[1..k -> Alphabet] : k \in 1..Hdr.maxlen}
Complete == Domain \subseteq {T[i].p : i \in 2..Len(T)}
NamesOK == \A n \in Range(Names) : ValidName(n)

Result == [rows |-> Len(T) - 1, bad |-> {[row |-> i, rec |-> T[i]] : i \in Bad}, complete |-> Complete /\ NamesOK]
ASSUME JsonSerialize("result.json", <<Result>>)
=============================================================================
