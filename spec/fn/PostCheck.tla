------------------------------ MODULE PostCheck ------------------------------
(* POST returns the service's result verbatim (204 without content for null), *)
(* a Location header for resource responses; HEAD is handled exactly as GET.  *)
EXTENDS Integers, Sequences, FiniteSets, Json, TLC
T == ndJsonDeserialize("table.ndjson")
Hdr(h, k) == IF k \in DOMAIN h THEN h[k] ELSE <<>>
RowOK(r) ==
    CASE r.kind = "post" -> IF r.raw = "null" THEN r.status = 204 /\ r.body = ""
                            ELSE r.status = 200 /\ r.body = r.raw /\ Hdr(r.hdr, "Content-Type") = <<"application/json; charset=utf-8">>
      [] r.kind = "postres" -> r.status = 200 /\ Hdr(r.hdr, "Location") = <<r.loc>> /\ r.body = ""
      [] r.kind = "head" -> r.gstatus = r.hstatus /\ r.ghdr = r.hhdr
Bad == {i \in 1..Len(T) : ~RowOK(T[i])}
Result == [rows |-> Len(T), bad |-> {[row |-> i, rec |-> T[i]] : i \in Bad}, complete |-> TRUE]
ASSUME JsonSerialize("result.json", <<Result>>)
=============================================================================
