----------------------------- MODULE RenderCheck -----------------------------
EXTENDS HttpRender, Json
T == ndJsonDeserialize("table.ndjson")
Rows == 2..Len(T)
RowOK(r) ==
    IF r.res["r0"].k = "nf" THEN r.status = 404
    ELSE r.status = 200 /\ r.valid /\ r.tree = Render(r.enc, r.res, "r0", {}, FALSE)
Bad == {i \in Rows : ~RowOK(T[i])}
Result == [rows |-> Len(T) - 1, bad |-> {[row |-> i, rec |-> T[i], exp |-> IF T[i].res["r0"].k = "nf" THEN Prim("404") ELSE Render(T[i].enc, T[i].res, "r0", {}, FALSE)] : i \in Bad},
           complete |-> Len(T) - 1 = T[1].count]
ASSUME JsonSerialize("result.json", <<Result>>)
=============================================================================
