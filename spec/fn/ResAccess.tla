------------------------------ MODULE ResAccess ------------------------------
(***************************************************************************)
(* What an access response grants (RES service protocol; codec             *)
(* DecodeAccessResponse, rescache Access.CanGet / CanCall).  The response   *)
(* is described by its members:                                             *)
(*   res   object | absent | null | array      the result member            *)
(*   get   none | true | false | null | string | number                     *)
(*   call  none | star | a | ab | empty | null | number | stara             *)
(*   err   none | null | notFound | denied | custom                         *)
(* Verdict(r, want) is "ok", or the error the request is refused with:      *)
(* the error of the response if it has one, "decode" if a member has the    *)
(* wrong JSON type (the response is rejected as a whole), the missing-result *)
(* error, else system.accessDenied unless the grant is there.  An error      *)
(* response is never a grant, whatever its code (C04).                       *)
(***************************************************************************)
EXTENDS Integers

ErrCode(e) == CASE e = "notFound" -> "system.notFound" [] e = "denied" -> "system.accessDenied" [] OTHER -> "my.err"

BadType(r) == r.res = "array" \/ r.get \in {"string", "number"} \/ r.call = "number"

Granted(r, want) ==
    IF want = "get" THEN r.get = "true"
    ELSE CASE r.call = "star" -> TRUE
           [] r.call = "a" -> want = "a"
           [] r.call = "ab" -> want \in {"a", "b"}
           [] r.call = "stara" -> want = "a"          \* "*" grants everything only when it is the whole member
           [] OTHER -> FALSE

Verdict(r, want) ==
    IF BadType(r) THEN "decode"
    ELSE IF r.err \notin {"none", "null"} THEN ErrCode(r.err)
    ELSE IF r.res # "object" THEN "missing"
    ELSE IF Granted(r, want) THEN "ok" ELSE "system.accessDenied"
=============================================================================
