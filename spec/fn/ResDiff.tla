------------------------------- MODULE ResDiff -------------------------------
(* What the events derived from a re-fetched resource must satisfy: applied   *)
(* in order to the old state they yield exactly the new state, every index    *)
(* in range; collections use only remove and add events, models one change    *)
(* event with delete actions; unchanged content yields no event.              *)
EXTENDS Integers, Sequences, FiniteSets

Del == [t |-> "x", v |-> ""]

RECURSIVE ApplyColl(_, _)
(* result: [ok, c] *)
ApplyColl(c, evs) ==
    IF evs = <<>> THEN [ok |-> TRUE, c |-> c]
    ELSE LET e == Head(evs)
         IN IF e.e = "remove"
            THEN IF e.idx >= 0 /\ e.idx < Len(c)
                 THEN ApplyColl(SubSeq(c, 1, e.idx) \o SubSeq(c, e.idx + 2, Len(c)), Tail(evs))
                 ELSE [ok |-> FALSE, c |-> c]
            ELSE IF e.e = "add"
            THEN IF e.idx >= 0 /\ e.idx <= Len(c)
                 THEN ApplyColl(SubSeq(c, 1, e.idx) \o <<e.val>> \o SubSeq(c, e.idx + 1, Len(c)), Tail(evs))
                 ELSE [ok |-> FALSE, c |-> c]
            ELSE [ok |-> FALSE, c |-> c]

CollRowOK(r) ==
    LET res == ApplyColl(r.a, r.ev)
    IN /\ res.ok
       /\ res.c = r.b
       /\ r.res = r.b
       /\ (r.a = r.b => r.ev = <<>>)

ModelRowOK(r) ==
    LET diff == {k \in DOMAIN r.a \cup DOMAIN r.b : k \notin DOMAIN r.a \/ k \notin DOMAIN r.b \/ r.a[k] # r.b[k]}
    IN /\ r.res = r.b
       /\ IF diff = {} THEN r.ev = <<>>
          ELSE /\ Len(r.ev) = 1
               /\ r.ev[1].e = "change"
               /\ DOMAIN r.ev[1].vals = diff
               /\ \A k \in diff : r.ev[1].vals[k] = (IF k \in DOMAIN r.b THEN r.b[k] ELSE Del)
=============================================================================
