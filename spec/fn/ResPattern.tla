----------------------------- MODULE ResPattern -----------------------------
(***************************************************************************)
(* Resource patterns of system.reset, under messaging-system wildcard      *)
(* semantics.  Strings are sequences of one-character symbols.  A pattern  *)
(* is a non-empty dot-separated sequence of non-empty tokens; a token is   *)
(* "*" (exactly one name token), ">" (one or more trailing tokens, only as *)
(* the last token) or consists of ordinary characters only.  An invalid    *)
(* pattern matches nothing.                                                *)
(***************************************************************************)
EXTENDS Integers, Sequences, FiniteSets

Plain == {"a", "b"}   \* the ordinary (printable, non-wildcard) characters of the table alphabet

RECURSIVE SplitAt(_, _)
SplitAt(s, sep) ==
    IF s = <<>> THEN << <<>> >>
    ELSE LET r == SplitAt(Tail(s), sep)
         IN IF Head(s) = sep THEN << <<>> >> \o r
            ELSE << <<Head(s)>> \o Head(r) >> \o Tail(r)

Tokens(s) == SplitAt(s, ".")

PlainTok(t) == t # <<>> /\ \A j \in DOMAIN t : t[j] \in Plain

ValidName(n) == n # <<>> /\ \A i \in DOMAIN Tokens(n) : PlainTok(Tokens(n)[i])

ValidPattern(p) ==
    /\ p # <<>>
    /\ LET ts == Tokens(p)
       IN \A i \in DOMAIN ts :
             \/ ts[i] = <<"*">>
             \/ ts[i] = <<">">> /\ i = Len(ts)
             \/ PlainTok(ts[i])

TokMatch(pt, nt) == pt = <<"*">> \/ pt = nt

Match(p, n) ==
    /\ ValidPattern(p)
    /\ LET pt == Tokens(p)
           nt == Tokens(n)
       IN IF pt[Len(pt)] = <<">">>
          THEN Len(nt) >= Len(pt) /\ \A i \in 1..(Len(pt) - 1) : TokMatch(pt[i], nt[i])
          ELSE Len(nt) = Len(pt) /\ \A i \in 1..Len(pt) : TokMatch(pt[i], nt[i])
=============================================================================
