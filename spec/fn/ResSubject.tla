----------------------------- MODULE ResSubject -----------------------------
(***************************************************************************)
(* Which service subjects a client input may lead to (C14).  Inputs are    *)
(* sequences of symbols; "a", "CID" ({cid} tag) and "SLASHCH" stand for    *)
(* printable non-space ASCII characters other than . * > ?; every other    *)
(* symbol is a character that must never reach a subject.                 *)
(***************************************************************************)
EXTENDS Integers, Sequences, FiniteSets

Plain == {"a", "CID", "SLASHCH"}

RECURSIVE SplitAt(_, _)
SplitAt(s, sep) ==
    IF s = <<>> THEN << <<>> >>
    ELSE LET r == SplitAt(Tail(s), sep)
         IN IF Head(s) = sep THEN << <<>> >> \o r
            ELSE << <<Head(s)>> \o Head(r) >> \o Tail(r)

Range(s) == {s[i] : i \in DOMAIN s}

ValidPart(t) == t # <<>> /\ \A i \in DOMAIN t : t[i] \in Plain

FirstQ(s) == IF \E i \in DOMAIN s : s[i] = "QM" THEN CHOOSE i \in DOMAIN s : s[i] = "QM" /\ \A j \in 1..(i - 1) : s[j] # "QM" ELSE 0

NameOf(s) == IF FirstQ(s) = 0 THEN s ELSE SubSeq(s, 1, FirstQ(s) - 1)

(* a resource id: non-empty dot separated valid parts, optionally followed by ? and anything *)
ValidRID(s) ==
    LET nm == NameOf(s)
    IN nm # <<>> /\ \A i \in DOMAIN SplitAt(nm, "DOT") : ValidPart(SplitAt(nm, "DOT")[i])

LastDot(s) == IF \E i \in DOMAIN s : s[i] = "DOT" THEN CHOOSE i \in DOMAIN s : s[i] = "DOT" /\ \A j \in (i + 1)..Len(s) : s[j] # "DOT" ELSE 0

Sub(t, n, m) == [t |-> t, n |-> n, m |-> m]

(* the method of a call is not a resource id: a {cid} tag in it is not expanded *)
Raw(m) == [i \in DOMAIN m |-> IF m[i] = "CID" THEN "CIDRAW" ELSE m[i]]

(* expected for a WebSocket request "<prefix>.<s>": [valid, subs] *)
WS(prefix, s) ==
    CASE prefix \in {"get", "subscribe"} ->
            [valid |-> ValidRID(s), subs |-> {Sub("access", NameOf(s), <<>>), Sub("get", NameOf(s), <<>>)}]
      [] prefix = "unsubscribe" -> [valid |-> ValidRID(s), subs |-> {}]
      [] prefix = "new" ->
            [valid |-> ValidRID(s), subs |-> {Sub("access", NameOf(s), <<>>), Sub("call", NameOf(s), <<"NEW">>)}]
      [] prefix \in {"call", "auth"} ->
            LET d == LastDot(s)
                rid == SubSeq(s, 1, d - 1)
                meth == SubSeq(s, d + 1, Len(s))
                ok == d > 0 /\ ValidPart(meth) /\ ValidRID(rid)
            IN [valid |-> ok,
                subs |-> IF prefix = "call" THEN {Sub("access", NameOf(rid), <<>>), Sub("call", NameOf(rid), Raw(meth))}
                         ELSE {Sub("auth", NameOf(rid), Raw(meth))}]

(* a rid supplied by a service (reference value in a model; resource of a call response): followed only if  *)
(* it is a valid resource id; a {cid} tag in it is expanded like in any rid of the connection               *)
SVC(kind, s) ==
    [valid |-> ValidRID(s),
     subs |-> IF kind = "svcref" THEN {Sub("get", NameOf(s), <<>>)}
              ELSE {Sub("access", NameOf(s), <<>>), Sub("get", NameOf(s), <<>>)}]

(* HTTP: the path after the API prefix as symbols; Pxx are percent-encodings *)
Unesc(x) == CASE x = "P2E" -> "DOT" [] x = "P2A" -> "STAR" [] x = "P3E" -> "GT" [] x = "P3F" -> "QM"
              [] x = "P20" -> "SP" [] x = "P0A" -> "LF" [] x = "P2F" -> "SLASHCH" [] x = "PFF" -> "BADUTF" [] OTHER -> x

RECURSIVE Join(_)
Join(parts) == IF Len(parts) = 1 THEN parts[1] ELSE parts[1] \o <<"DOT">> \o Join(Tail(parts))

HTTPParts(s) == LET segs == SplitAt(s, "SLASH") IN [i \in DOMAIN segs |-> [j \in DOMAIN segs[i] |-> Unesc(segs[i][j])]]

(* the call methods the harness configures for PUT, DELETE and PATCH *)
Mapped == [PUT |-> <<"a">>, DELETE |-> <<"a", "a">>, PATCH |-> <<"a", "a", "a">>]

HTTP0(method, s) ==
    LET rawOK == s # <<>> /\ "DOT" \notin Range(s) /\ s[Len(s)] # "SLASH"
        s1 == IF s # <<>> /\ s[1] = "SLASH" THEN Tail(s) ELSE s     \* one leading slash is dropped
        parts == HTTPParts(s1)
    IN IF method \in {"GET", "HEAD"}
       THEN LET rid == Join(parts)
            IN [valid |-> rawOK /\ s1 # <<>> /\ ValidRID(rid),
                subs |-> {Sub("access", NameOf(rid), <<>>), Sub("get", NameOf(rid), <<>>)}]
       ELSE IF method \in DOMAIN Mapped
       THEN \* PUT / DELETE / PATCH with a configured call method: the whole path is the resource id
            LET rid == Join(parts)
            IN [valid |-> rawOK /\ s1 # <<>> /\ ValidRID(rid),
                subs |-> {Sub("access", NameOf(rid), <<>>), Sub("call", NameOf(rid), Mapped[method])}]
       ELSE LET ok == rawOK /\ s1 # <<>> /\ Len(parts) >= 2
                rid == IF Len(parts) >= 2 THEN Join(SubSeq(parts, 1, Len(parts) - 1)) ELSE <<>>
                act == IF Len(parts) >= 2 THEN parts[Len(parts)] ELSE <<>>
            IN [valid |-> ok /\ ValidPart(act) /\ ValidRID(rid),
                subs |-> {Sub("access", NameOf(rid), <<>>), Sub("call", NameOf(rid), Raw(act))}]

(* "QRY" as the last symbol is a query string on the URL itself: it becomes the query of the resource id and changes  *)
(* neither what is valid nor any subject (the method of a call is validated whether or not a query follows)            *)
HTTP(method, s) == IF s # <<>> /\ s[Len(s)] = "QRY" THEN HTTP0(method, SubSeq(s, 1, Len(s) - 1)) ELSE HTTP0(method, s)
=============================================================================
