------------------------------ MODULE ResValue ------------------------------
(***************************************************************************)
(* The values a service may put into a model, a collection, a change event *)
(* or an add event (RES service protocol; server/codec Value.UnmarshalJSON, *)
(* IsProper and the decoders built on them).  A value is described by what  *)
(* kind of JSON it is and, for an object, by its members:                   *)
(*   rid     none | null | valid | query | empty | invalid | wild | number  *)
(*   soft    none | true | false | null | string                            *)
(*   data    none | null | prim | string | object | array                   *)
(*   action  none | null | delete | other | number                          *)
(* (null members count as absent, except data: {"data": null} wraps null).  *)
(* Classify gives the kind of value, or "err" when the message carrying it  *)
(* must be rejected as a whole: arrays, objects that are none of reference, *)
(* soft reference, data value or delete action, members of the wrong JSON   *)
(* type, ambiguous objects (rid together with action or data; action with   *)
(* data), unknown actions, empty or invalid resource ids.                   *)
(***************************************************************************)
EXTENDS Integers

Has(x) == x \notin {"none", "null"}

Classify(v) ==
    CASE v.top = "prim" -> "prim"
      [] v.top = "array" -> "err"
      [] OTHER ->
            IF v.rid = "number" \/ v.soft = "string" \/ v.action = "number" THEN "err"     \* member of the wrong JSON type
            ELSE IF Has(v.rid)
                 THEN IF v.rid = "empty" \/ Has(v.action) \/ v.data # "none" THEN "err"
                      ELSE IF v.rid \in {"invalid", "wild"} THEN "err"
                      ELSE IF v.soft = "true" THEN "soft" ELSE "ref"
            ELSE IF Has(v.action)
                 THEN IF v.data # "none" THEN "err"
                      ELSE IF v.action = "delete" THEN "delete" ELSE "err"
            ELSE IF v.data # "none"
                 THEN IF v.data \in {"object", "array"} THEN "data" ELSE "prim"    \* a data value wrapping a primitive is that primitive
            ELSE "err"

(* the delete action is a value of change events only *)
Expected(v, ctx) ==
    LET c == Classify(v)
    IN IF c = "delete" /\ ctx # "change" THEN "err" ELSE c

ExpectedRid(v, ctx) == IF Expected(v, ctx) \in {"ref", "soft"} THEN v.rid ELSE "none"
=============================================================================
