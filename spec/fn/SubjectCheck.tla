---------------------------- MODULE SubjectCheck ----------------------------
EXTENDS ResSubject, Json, TLC
T == ndJsonDeserialize("table.ndjson")
Rows == 2..Len(T)
Exp(r) == IF r.kind = "ws" THEN WS(r.prefix, r.s) ELSE IF r.kind = "http" THEN HTTP(r.prefix, r.s) ELSE SVC(r.kind, r.s)
Got(r) == {Sub(x.t, x.n, x.m) : x \in Range(r.subs)}
RowOK(r) ==
    LET e == Exp(r)
    IN /\ r.answered
       /\ \A x \in Range(r.subs) : ~x.bad
       /\ \A x \in Range(r.msubs) : ~x.bad
       /\ IF e.valid
          THEN /\ IF r.kind \in {"ws", "http"} THEN Got(r) = e.subs
                  ELSE Got(r) \subseteq e.subs /\ (r.kind = "svcres" => \E x \in Got(r) : x.t = "access")   \* the get may be served from cache
               /\ r.code # "system.invalidRequest"
               /\ \A x \in Range(r.msubs) : \E y \in e.subs : y.t = "get" /\ y.n = x.n
          ELSE /\ r.subs = <<>> /\ r.msubs = <<>>
               /\ CASE r.kind = "ws" -> r.code = "system.invalidRequest"
                    [] r.kind = "http" -> r.status = 404
                    [] OTHER -> r.code # ""     \* rejected: the client gets an error, nothing is followed
Bad == {i \in Rows : ~RowOK(T[i])}
Hdr == T[1]
WSDomain == UNION {[1..k -> Range(Hdr.ws)] : k \in 0..Hdr.maxlen}
Complete == \A p \in {"get", "subscribe", "unsubscribe", "call", "auth", "new"} :
                WSDomain \subseteq {T[i].s : i \in {j \in Rows : T[j].kind = "ws" /\ T[j].prefix = p}}
Result == [rows |-> Len(T) - 1, bad |-> {[row |-> i, rec |-> T[i], exp |-> Exp(T[i])] : i \in Bad}, complete |-> Complete]
ASSUME JsonSerialize("result.json", <<Result>>)
=============================================================================
