---------------------------- MODULE SubjectCheck ----------------------------
EXTENDS ResSubject, Json, TLC
T == ndJsonDeserialize("table.ndjson")
Rows == 2..Len(T)
Exp(r) == IF r.kind = "ws" THEN WS(r.prefix, r.s) ELSE HTTP(r.prefix, r.s)
Got(r) == {Sub(x.t, x.n, x.m) : x \in Range(r.subs)}
RowOK(r) ==
    LET e == Exp(r)
    IN /\ r.answered
       /\ \A x \in Range(r.subs) : ~x.bad
       /\ \A x \in Range(r.msubs) : ~x.bad
       /\ IF e.valid
          THEN /\ Got(r) = e.subs
               /\ r.code # "system.invalidRequest"
               /\ \A x \in Range(r.msubs) : \E y \in e.subs : y.t = "get" /\ y.n = x.n
          ELSE /\ r.subs = <<>> /\ r.msubs = <<>>
               /\ IF r.kind = "ws" THEN r.code = "system.invalidRequest" ELSE r.status = 404
Bad == {i \in Rows : ~RowOK(T[i])}
Hdr == T[1]
WSDomain == UNION {[1..k -> Range(Hdr.ws)] : k \in 0..Hdr.maxlen}
Complete == \A p \in {"get", "subscribe", "unsubscribe", "call", "auth", "new"} :
                WSDomain \subseteq {T[i].s : i \in {j \in Rows : T[j].kind = "ws" /\ T[j].prefix = p}}
Result == [rows |-> Len(T) - 1, bad |-> {[row |-> i, rec |-> T[i], exp |-> Exp(T[i])] : i \in Bad}, complete |-> Complete]
ASSUME JsonSerialize("result.json", <<Result>>)
=============================================================================
