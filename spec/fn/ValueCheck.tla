----------------------------- MODULE ValueCheck -----------------------------
EXTENDS ResValue, Json, TLC, Sequences, FiniteSets
T == ndJsonDeserialize("table.ndjson")
RidKind(r) == CASE r.grid = "" -> "none" [] r.grid = "a.b" -> "valid" [] r.grid = "a.b?q=1" -> "query" [] OTHER -> "other"
RowOK(r) == r.got = Expected(r, r.ctx) /\ RidKind(r) = ExpectedRid(r, r.ctx)
Bad == {i \in 1..Len(T) : ~RowOK(T[i])}
Rids == {"none", "null", "valid", "query", "empty", "invalid", "wild", "number"}
Softs == {"none", "true", "false", "null", "string"}
Datas == {"none", "null", "prim", "string", "object", "array"}
Acts == {"none", "null", "delete", "other", "number"}
Ctxs == {"getmodel", "getcoll", "change", "add"}
Objs == {<<T[i].rid, T[i].soft, T[i].data, T[i].action, T[i].extra, T[i].ctx>> : i \in {j \in 1..Len(T) : T[j].top = "object"}}
Complete == Cardinality(Objs) = Cardinality(Rids) * Cardinality(Softs) * Cardinality(Datas) * Cardinality(Acts) * 2 * Cardinality(Ctxs)
Result == [rows |-> Len(T), bad |-> {[row |-> i, rec |-> T[i], exp |-> Expected(T[i], T[i].ctx)] : i \in Bad}, complete |-> Complete]
ASSUME JsonSerialize("result.json", <<Result>>)
=============================================================================
