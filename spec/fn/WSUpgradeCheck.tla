--------------------------- MODULE WSUpgradeCheck ---------------------------
(* WebSocket upgrades: origin allow-list (refused with 403 before any service *)
(* request), meta of the wsHeaderAuth response (direct status ends the        *)
(* request; the handshake's own Sec-WebSocket-* / Upgrade / Connection values  *)
(* stay first and unchanged).                                                  *)
EXTENDS HttpStatus, Json, TLC
T == ndJsonDeserialize("table.ndjson")
Range(s) == {s[i] : i \in DOMAIN s}
Hdr(r, k) == IF k \in DOMAIN r.hdr THEN r.hdr[k] ELSE <<>>
RowOK(r) ==
    CASE r.kind = "wsorigin" ->
            LET ok == r.origin = "" \/ r.origin = "null" \/ r.lorigin \in {"http://a", "http://c"}
            IN IF ok THEN r.upgraded /\ r.status = 101 /\ (r.hauth => r.reqs = <<"auth">>) /\ (~r.hauth => r.reqs = <<>>)
               ELSE ~r.upgraded /\ r.status = 403 /\ r.reqs = <<>>
      [] r.kind = "wshdr" ->
            /\ r.upgraded /\ r.status = 101
            /\ Hdr(r, "Upgrade") # <<>> /\ Hdr(r, "Upgrade")[1] = "websocket"
            /\ Hdr(r, "Sec-Websocket-Accept") # <<>> /\ Hdr(r, "Sec-Websocket-Accept")[1] # "v1"
            /\ (r.cname \in {"Sec-Websocket-Extensions", "Sec-Websocket-Protocol"} => "v1" \notin Range(Hdr(r, r.cname)))
            /\ (r.cname = "X-Test" => Hdr(r, "X-Test") = <<"v1">>)
      [] r.kind = "wsmeta" ->
            IF Direct(r.mstatus) THEN ~r.upgraded /\ r.status = r.mstatus /\ r.reqs = <<"auth">>
            ELSE r.upgraded /\ r.status = 101
Bad == {i \in 1..Len(T) : ~RowOK(T[i])}
Result == [rows |-> Len(T), bad |-> {[row |-> i, rec |-> T[i]] : i \in Bad}, complete |-> TRUE]
ASSUME JsonSerialize("result.json", <<Result>>)
=============================================================================
