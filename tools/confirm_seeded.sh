#!/bin/sh
# usage: confirm_seeded.sh <seeded-dir> : verify in a scratch worktree that the change compiles, passes the
# repository suite, and that the demonstration fails with it and passes without it.
set -u
d=$(cd "$1" && pwd); wt=/tmp/mut/confirm.$$
export GOFLAGS=-mod=mod GOPROXY=off GOSUMDB=off
git -C /repo worktree add -q --detach "$wt" HEAD || exit 2
cd "$wt"
res="ok"
git apply "$d/patch.diff" || { echo "APPLY-FAIL"; res=fail; }
if [ $res = ok ]; then
  go build ./... || res=fail
  go test -vet=off -count=1 ./... >/tmp/mut/suite.$$ 2>&1 && echo "suite-with-patch: PASS" || { echo "suite-with-patch: FAIL"; tail -5 /tmp/mut/suite.$$; res=fail; }
  demo=$(ls "$d"/*_demo_test.go.txt | head -1); name=$(basename "$demo" .txt)
  ddir=$(python3 -c "import json,sys; print(json.load(open('$d/meta.json')).get('demo_dir','test'))")
  cp "$demo" $ddir/"$name"
  go test -vet=off -count=1 ./$ddir/ -run 'Demo|ZZ' >/tmp/mut/demo1.$$ 2>&1 && { echo "demo-with-patch: PASS (unexpected)"; res=fail; } || echo "demo-with-patch: FAIL (expected)"
  git apply -R "$d/patch.diff"
  go test -vet=off -count=1 ./$ddir/ -run 'Demo|ZZ' >/tmp/mut/demo2.$$ 2>&1 && echo "demo-without-patch: PASS (expected)" || { echo "demo-without-patch: FAIL"; tail -5 /tmp/mut/demo2.$$; res=fail; }
fi
cd /; git -C /repo worktree remove --force "$wt"; rm -f /tmp/mut/*.$$
echo "RESULT $res $(basename $d)"
