#!/bin/sh
# usage: matrix.sh [ids...]  -- every seeded change (or the given ones) against the quick check of its property; /repo must be clean.
# Prints one line per change: <id> <property> detected|MISSED|broken(<code>)
cd /verif || exit 2
git -C /repo diff --quiet || { echo "/repo has uncommitted changes"; exit 2; }
ids=${*:-$(ls seeded)}
for id in $ids; do
  d=$(ls -d /verif/seeded/$id* | head -1)
  prop=$(python3 -c "import json;print(json.load(open('$d/meta.json'))['property'])")
  git -C /repo apply "$d/patch.diff" || { echo "$(basename $d) $prop APPLY-FAIL"; continue; }
  ./vcheck run "$prop" --tier quick >/tmp/matrix.out 2>&1; code=$?
  git -C /repo checkout -- .
  case $code in
    1) r=detected;;
    0) r=MISSED;;
    *) r="broken($code)";;
  esac
  echo "$(basename $d) $prop $r $(grep -m1 'why:' /tmp/matrix.out | cut -c1-160)"
done
