#!/bin/sh
# usage: rebase_patch.sh <patch.diff>  -- re-creates the patch against /repo HEAD (3-way) in a scratch worktree; rewrites the file in place
set -u
p=$(readlink -f "$1"); wt=/tmp/mut/rebase.$$
git -C /repo worktree add -q --detach "$wt" HEAD || exit 2
cd "$wt"
if git apply --check "$p" 2>/dev/null; then echo "applies cleanly: $p"; else
  if git apply -3 "$p" >/tmp/mut/rebase.log.$$ 2>&1; then
    if git diff HEAD --name-only --diff-filter=U | grep -q .; then echo "CONFLICT $p"; cat /tmp/mut/rebase.log.$$; else
      git diff HEAD -- . > "$p.new" && mv "$p.new" "$p" && echo "rebased: $p"; fi
  else echo "CANNOT APPLY $p"; cat /tmp/mut/rebase.log.$$; fi
fi
cd /; git -C /repo worktree remove --force "$wt"; rm -f /tmp/mut/rebase.log.$$
