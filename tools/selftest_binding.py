#!/usr/bin/env python3
"""Binding self-test: record traces of the real gateway, corrupt one recorded field / drop one recorded event at a
time, and show that the trace specification (ObserverTrace + component trace modules) rejects every corrupted trace
while it accepts the original. Exit 0 iff all corruptions are rejected and the original is accepted."""
import copy, json, os, shutil, sys
sys.path.insert(0, os.path.dirname(os.path.dirname(os.path.abspath(__file__))))
from vlib import pipeline, directed, families
from vlib.common import OUT, build_harness


def first(recs, pred):
    for i, r in enumerate(recs):
        if pred(r):
            return i
    return None


def main():
    wd = os.path.join(OUT, "selftest-%d" % os.getpid())
    os.makedirs(wd, exist_ok=True)
    try:
        binp = build_harness(wd)
        scheds = directed.schedules("stream")[:3] + directed.schedules("cache")[:1] + directed.schedules("access")[:1]
        recs, crashes = pipeline.run_harness(binp, scheds, wd, "selftest")
        base, _ = pipeline.observe(recs, wd, "selftest-base")
        base = [v for v in base if not v.get("kf")]
        print("original traces: %d records, %d violations without a finding tag" % (len(recs), len(base)))
        ok = not base
        def corrupt(name, pred, fn):
            nonlocal ok
            i = first(recs, pred)
            if i is None:
                print("  %-46s no such record in the sample (skipped)" % name)
                return
            r2 = copy.deepcopy(recs)
            out = fn(r2, i)
            if out is not None:
                r2 = out
            try:
                v, _ = pipeline.observe(r2, wd, "selftest-c")
            except Exception as e:
                print("  %-46s REJECTED (trace no longer consumable: %s)" % (name, str(e)[:60]))
                return
            v = [x for x in v if not x.get("kf")]
            if v:
                print("  %-46s REJECTED  %s: %s" % (name, v[0]["p"], v[0]["why"][:90]))
            else:
                print("  %-46s accepted  <-- the binding is too weak here" % name)
                ok = False
        def setf(k, val):
            def f(rs, i):
                rs[i][k] = val(rs[i][k]) if callable(val) else val
            return f
        def drop(rs, i):
            return rs[:i] + rs[i + 1:]
        corrupt("client event value changed", lambda r: r["e"] == "cev" and r["ev"] == "change" and r["vals"],
                lambda rs, i: rs[i]["vals"].update({k: {"t": "p", "v": "\"corrupt\""} for k in list(rs[i]["vals"])[:1]}))
        corrupt("client event dropped", lambda r: r["e"] == "cev" and r["ev"] == "custom", drop)
        corrupt("client response dropped", lambda r: r["e"] == "cres" and r["ok"], drop)
        corrupt("service get request dropped (served without get)", lambda r: r["e"] == "mreq" and r["subj"].startswith("get."), drop)
        corrupt("event subscription dropped (get unsubscribed)", lambda r: r["e"] == "msub" and r["kind"] == "event", drop)
        corrupt("access request token changed", lambda r: r["e"] == "mreq" and r["subj"].startswith("access.") and r["tok"] != "nil", setf("tok", "\"forged\""))
        corrupt("cache note: use count off by one", lambda r: r["e"] == "note" and r.get("kind") == "cacheRem", setf("count", lambda c: c + 1))
        corrupt("cache note: entry reported as new", lambda r: r["e"] == "note" and r.get("kind") == "cacheGet" and not r["created"], setf("created", True))
        corrupt("queue note: event path changed", lambda r: r["e"] == "note" and r.get("kind") == "subEvent" and r["path"] == "queued", setf("path", "process"))
        corrupt("queue note: unqueue flag changed", lambda r: r["e"] == "note" and r.get("kind") == "subUnqueue", setf("qf", lambda q: q ^ 1))
        corrupt("work queue note: wake-up flipped", lambda r: r["e"] == "note" and r.get("kind") == "qEnq", setf("sent", lambda b: not b))
        corrupt("access cache note: path changed", lambda r: r["e"] == "note" and r.get("kind") == "accLoad" and r["path"] == "issued", setf("path", "cached"))
        corrupt("resource note: forward removed", lambda r: r["e"] == "note" and r.get("kind") == "rsFwd" and r["ev"] == "custom", drop)
        corrupt("hook removed: all reaccess notes", lambda r: r["e"] == "note" and r.get("kind") == "reaccess",
                lambda rs, i: [x for x in rs if not (x["e"] == "note" and x.get("kind") == "reaccess")])
        corrupt("ready note: visit count off by one", lambda r: r["e"] == "note" and r.get("kind") == "rdyOn" and not r["first"], setf("loading", lambda n: n + 1))
        corrupt("ready note: parked flag flipped", lambda r: r["e"] == "note" and r.get("kind") == "rdyOn", setf("wait", lambda b: not b))
        corrupt("ready note: reference hidden from collect", lambda r: r["e"] == "note" and r.get("kind") == "rdyOn" and not r["first"], drop)
        corrupt("ready note: callback never fires", lambda r: r["e"] == "note" and r.get("kind") == "rdyFire", drop)
        corrupt("ready note: callback fires twice", lambda r: r["e"] == "note" and r.get("kind") == "rdyFire", lambda rs, i: rs[:i] + [rs[i]] + rs[i:])
        corrupt("ready note: load completion dropped", lambda r: r["e"] == "note" and r.get("kind") == "subLoaded", drop)
        corrupt("conn queue note: queue length off by one", lambda r: r["e"] == "note" and r.get("kind") == "cqEnq" and r["count"] > 0, setf("count", lambda n: n - 1))
        corrupt("conn queue note: a closure is not run", lambda r: r["e"] == "note" and r.get("kind") == "cqRun" and r["idx"] > 0, drop)
        corrupt("conn queue note: worker never leaves", lambda r: r["e"] == "note" and r.get("kind") == "cqDone", drop)
        corrupt("conn queue note: refusal before dispose", lambda r: r["e"] == "note" and r.get("kind") == "cqDispose", drop)
        print("BINDING-SELFTEST", "ok" if ok else "WEAK")
        return 0 if ok else 1
    finally:
        shutil.rmtree(wd, ignore_errors=True)


if __name__ == "__main__":
    sys.exit(main())
