#!/usr/bin/env python3
"""Re-run the schedule of a violation file (or a schedule ndjson) and print a compact trace."""
import json, os, sys, shutil
sys.path.insert(0, os.path.dirname(os.path.dirname(os.path.abspath(__file__))))
from vlib import pipeline
from vlib.common import OUT, build_harness

def compact(r):
    e = r['e']
    if e == 'step': return 'STEP %d %s%s' % (r['i'], r['s'], ' (skipped)' if r['skipped'] else '')
    if e == 'creq': return '  c-> %s id=%s %s %s %s' % (r['c'], r['id'], r['m'], r['rid'], r.get('count'))
    if e == 'cres': return '  c<- %s id=%s ok=%s %s set=%s rrid=%s' % (r['c'], r['id'], r['ok'], r['code'], json.dumps(r['set']), r['rrid'])
    if e == 'cev': return '  c<- %s EV %s.%s idx=%s val=%s vals=%s set=%s reason=%s' % (r['c'], r['rid'], r['ev'], r['idx'], json.dumps(r['val']), json.dumps(r['vals']), json.dumps(r['set']), r['reason'])
    if e == 'mreq': return '  m<- k=%s %s c=%s tok=%s q=%s' % (r['k'], r['subj'], r['c'], r['tok'], r['q'])
    if e == 'mres': return '  m-> k=%s %s out=%s kind=%s %s' % (r['k'], r['t'], r['out'], r['kind'], json.dumps(r['val'] or r['list']))
    if e == 'mevt': return '  m-> EVT %s.%s.%s seq=%s idx=%s val=%s vals=%s %s' % (r['ns'], r['n'] or r['c'], r['ev'], r['seq'], r['idx'], json.dumps(r['val']), json.dumps(r['vals']), r.get('tok',''))
    if e in ('quiescent','final') and os.environ.get('FULL'): return '  ' + json.dumps(r)
    if e in ('quiescent','final'): return '  %s subs=%s cache=%s mqsubs=%s g=%s/%s' % (e.upper(), json.dumps(r['subs']), json.dumps(r['cache']), r['mqsubs'], r['gres'], r['gsubs'])
    return '  ' + json.dumps(r)

def main():
    p = sys.argv[1]
    if os.path.exists(p):
        v = json.load(open(p))
        s = v['schedule'] if 'schedule' in v else v
    else:
        # trace id: find its schedule in the newest cache file that has it
        s = None
        cd = os.path.join(OUT, 'cache')
        for f in sorted(os.listdir(cd), key=lambda x: -os.path.getmtime(os.path.join(cd, x))):
            if not f.endswith('.json'): continue
            r = json.load(open(os.path.join(cd, f)))
            for v in r['violations']:
                if v['tr'] == p and v.get('schedule'):
                    s = v['schedule']; break
            if s: break
        if s is None: sys.exit('no schedule for ' + p)
    wd = os.path.join(OUT, 'show-%d' % os.getpid()); os.makedirs(wd, exist_ok=True)
    try:
        if len(sys.argv) > 2 and sys.argv[2] == 'sched':
            print(json.dumps(s)); return
        try:
            viol, recs = pipeline.rerun_schedule(s, wd)
        except Exception as e:
            print('ERR', str(e)[:3000]); return
        for i, r in enumerate(recs):
            print('%4d %s' % (i + 1, compact(r)))
        for x in viol:
            print('VIOL', x['p'], x['l'], x['kf'], x['why'][:300])
    finally:
        shutil.rmtree(wd, ignore_errors=True)
main()
