#!/bin/sh
# usage: stage_seeded.sh <agent worktree> <Sxx-name> <property> [demo_dir]
set -u
wt=$1; id=$2; prop=$3; ddir=${4:-test}
d=/verif/seeded/$id; mkdir -p $d
cp $wt/patch.diff $d/patch.diff
demo=$(ls $wt/$ddir/zz_*demo_test.go | head -1)
cp $demo $d/$(basename $demo).txt
python3 - <<PY
import json
json.dump({"id":"$id","property":"$prop","demo_dir":"$ddir","origin":"independent sub-agent (round 2) given only the property text and a scratch worktree"},open("$d/meta.json","w"),indent=1)
PY
sh /verif/tools/rebase_patch.sh $d/patch.diff
sh /verif/tools/confirm_seeded.sh $d 2>&1 | tail -5
