#!/usr/bin/env python3
"""Summarise the violations in the family caches (latest tree hash)."""
import json, os, sys, re, collections
sys.path.insert(0, os.path.dirname(os.path.dirname(os.path.abspath(__file__))))
from vlib.common import OUT, tree_hash
th = tree_hash()
cnt = collections.Counter(); ex = {}
for f in sorted(os.listdir(os.path.join(OUT, 'cache'))):
    if not f.startswith(th) or not f.endswith('.json'): continue
    if len(sys.argv) > 1 and sys.argv[1] not in f: continue
    r = json.load(open(os.path.join(OUT, 'cache', f)))
    print(f, 'traces', r['traces'], 'lines', r['trace_lines'], 'exec', r['executed_steps'], 'skip', r['skipped_steps'], 'wall', r['wall_s'], 'crashes', r['crashes'][:2])
    for v in r['violations']:
        why = re.sub(r'\d+', 'N', v['why'])[:110]
        k = (r['family'], v['p'], v['kf'], why)
        cnt[k] += 1
        ex.setdefault(k, (v['tr'], v['l']))
for k, n in sorted(cnt.items()):
    print(n, k, ex[k])
