#!/bin/sh
# usage: trymutant.sh <patch.diff> <prop> [<prop>...]   -- applies the patch to /repo, runs the quick checks, reverts
set -u
patch=$1; shift
cd /repo || exit 2
git diff --quiet || { echo "/repo has uncommitted changes"; exit 2; }
git apply "$patch" || { echo "patch does not apply"; exit 2; }
cd /verif
for p in "$@"; do
  ./vcheck run "$p" --tier quick 2>&1 | grep -v "^KNOWN" | tail -4
done
git -C /repo checkout -- . 
