#!/bin/sh
# usage: tryneutral.sh <patch.diff> <prop>...  -- applies a semantics-preserving patch to /repo, runs the quick checks (all must exit 0), reverts
set -u
patch=$1; shift
cd /repo || exit 2
git diff --quiet || { echo "/repo has uncommitted changes"; exit 2; }
git apply "$patch" || { echo "patch does not apply"; exit 2; }
cd /verif
for p in "$@"; do
  ./vcheck run "$p" --tier quick 2>&1 | grep -v "^KNOWN" | tail -2 | cut -c1-250
done
git -C /repo checkout -- .
