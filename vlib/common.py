"""Shared helpers for the verification runner."""
import hashlib
import json
import os
import re
import shutil
import subprocess
import sys
import time

VERIF = os.path.dirname(os.path.dirname(os.path.abspath(__file__)))
REPO = os.environ.get("VERIF_REPO", "/repo")
SPEC = os.path.join(VERIF, "spec")
HARNESS = os.path.join(VERIF, "harness")
OUT = os.path.join(VERIF, "out")
GO = "go1.26.8"

GOENV = dict(os.environ, GOFLAGS="-mod=mod", GOPROXY="off", GOSUMDB="off", GOTOOLCHAIN="local")


class MachineryError(Exception):
    """A problem of the verification machinery itself (exit 2, never a violation)."""


def log(*a):
    print(*a, file=sys.stderr, flush=True)


def seed():
    try:
        return int(os.environ.get("VERIF_SEED", "1"))
    except ValueError:
        return 1


def tree_hash():
    """Hash of every file that goes into a build of /repo (working tree, not HEAD)."""
    h = hashlib.sha256()
    for root, dirs, files in os.walk(REPO):
        dirs[:] = sorted(d for d in dirs if d != ".git")
        for f in sorted(files):
            p = os.path.join(root, f)
            if not (f.endswith(".go") or f in ("go.mod", "go.sum")):
                continue
            h.update(p.encode())
            try:
                with open(p, "rb") as fh:
                    h.update(fh.read())
            except OSError:
                pass
    for root, dirs, files in os.walk(HARNESS):
        for f in sorted(files):
            if f.endswith(".go") or f == "go.mod":
                with open(os.path.join(root, f), "rb") as fh:
                    h.update(fh.read())
    for f in sorted(os.listdir(SPEC)):
        if f.endswith(".tla"):
            with open(os.path.join(SPEC, f), "rb") as fh:
                h.update(fh.read())
    for f in sorted(os.listdir(os.path.join(VERIF, "vlib"))):
        if f.endswith(".py"):
            with open(os.path.join(VERIF, "vlib", f), "rb") as fh:
                h.update(fh.read())
    return h.hexdigest()[:20]


def run(cmd, cwd=None, env=None, timeout=None, check=True, capture=True):
    p = subprocess.run(cmd, cwd=cwd, env=env or GOENV, timeout=timeout,
                       stdout=subprocess.PIPE if capture else None,
                       stderr=subprocess.STDOUT if capture else None, text=True)
    if check and p.returncode != 0:
        raise MachineryError("command failed (%d): %s\n%s" % (p.returncode, " ".join(cmd), (p.stdout or "")[-4000:]))
    return p


def build_harness(workdir, pkg="./gw", name="gw.test"):
    """Build the harness test binary from /repo's current working tree with hooks on."""
    shutil.copy(os.path.join(REPO, "go.sum"), os.path.join(HARNESS, "go.sum"))
    binp = os.path.join(workdir, name)
    run([GO, "test", "-c", "-tags", "verif", "-o", binp, pkg], cwd=HARNESS, timeout=600)
    return binp


def tlc(module, cwd, args=(), timeout=900, workers=1, java_opts=None):
    env = dict(os.environ)
    if java_opts:
        env["JAVA_TOOL_OPTIONS"] = java_opts
    md = os.path.join(cwd, "md")
    cmd = ["timeout", str(timeout), "tlc", "-workers", str(workers), "-metadir", md] + list(args) + [module]
    p = subprocess.run(cmd, cwd=cwd, env=env, stdout=subprocess.PIPE, stderr=subprocess.STDOUT, text=True)
    shutil.rmtree(md, ignore_errors=True)
    return p


def apalache_inductive(module, cwd, cinit="ConstInit", timeout=900):
    """Init => IndInv, IndInv /\\ Next => IndInv', IndInv => Safety with Apalache. Raises MachineryError unless all three pass."""
    runs = [("Init", "IndInv", 0), ("IndInit", "IndInv", 1), ("IndInit", "Safety", 0)]
    for init, inv, length in runs:
        cmd = ["timeout", str(timeout), "apalache-mc", "check", "--init=" + init, "--inv=" + inv, "--cinit=" + cinit,
               "--length=%d" % length, "--out-dir=" + os.path.join(cwd, "_apalache-out"), module]
        p = subprocess.run(cmd, cwd=cwd, stdout=subprocess.PIPE, stderr=subprocess.STDOUT, text=True)
        if "The outcome is: NoError" not in p.stdout:
            raise MachineryError("Apalache %s => %s (length %d) on %s did not pass (model bug):\n%s" % (init, inv, length, module, p.stdout[-2000:]))
    shutil.rmtree(os.path.join(cwd, "_apalache-out"), ignore_errors=True)
    return len(runs)


def tlc_stats(out):
    """(generated, distinct) from TLC's output."""
    m = re.search(r"(\d+) states generated, (\d+) distinct states found", out)
    if m:
        return int(m.group(1)), int(m.group(2))
    m = re.search(r"The number of states generated: (\d+)", out)
    if m:
        return int(m.group(1)), int(m.group(1))
    return 0, 0


def write_json(path, obj):
    os.makedirs(os.path.dirname(path), exist_ok=True)
    tmp = path + ".tmp%d" % os.getpid()
    with open(tmp, "w") as f:
        json.dump(obj, f, indent=1, sort_keys=True)
    os.replace(tmp, path)


def read_ndjson(path):
    out = []
    with open(path) as f:
        for ln in f:
            ln = ln.strip()
            if ln:
                out.append(json.loads(ln))
    return out


class Timer:
    def __init__(self):
        self.t0 = time.time()

    def s(self):
        return round(time.time() - self.t0, 2)
