"""Directed schedules: hand-written interleavings of known-delicate races, run in addition
to the TLC-generated ones."""
from .families import FAMILIES


def S(fam, name, steps):
    return {"id": "dir-%s-%s" % (fam, name), "cfg": FAMILIES[fam]["cfg"], "steps": steps + [{"op": "quiescent"}, {"op": "final"}]}


def sub(c, rid):
    return {"op": "send", "c": c, "m": "subscribe", "rid": rid}


def unsub(c, rid, count=None):
    s = {"op": "send", "c": c, "m": "unsubscribe", "rid": rid}
    if count is not None:
        s["count"] = count
    return s


def get(c, rid):
    return {"op": "send", "c": c, "m": "get", "rid": rid}


def opn(c, ver="latest"):
    return {"op": "open", "c": c, "ver": ver}


Q = {"op": "quiescent"}


def conn(c):
    return {"op": "conn", "c": c}


def cache(n):
    return {"op": "cache", "n": n}


def reply(t, n="", out="ok", c="", arg=""):
    return {"op": "reply", "t": t, "n": n, "out": out, "c": c, "arg": arg}


def ev(n, e, **kw):
    return dict({"op": "event", "n": n, "ev": e}, **kw)


def P(v):
    return {"t": "p", "v": v}


def R(v):
    return {"t": "r", "v": v}


def SC(fam, name, resources, steps):
    cfg = dict(FAMILIES[fam]["cfg"], resources=resources)
    return {"id": "dir-%s-%s" % (fam, name), "cfg": cfg, "steps": steps + [{"op": "quiescent"}, {"op": "final"}]}


def Mo(**kv):
    return {"k": "m", "m": kv}


def schedules(fam):
    out = []
    if fam == "stream":
        # issue #194: event applied between the get response and the connection's Loaded closure
        out.append(S(fam, "i194", [opn("c1"), sub("c1", "c"), conn("c1"), cache("c"), reply("access", "c"), cache("c"),
                                   conn("c1"), reply("get", "c"), cache("c"), ev("c", "change", k="z", val=P("2")), cache("c"),
                                   conn("c1"), conn("c1"), Q, ev("c", "custom"), Q]))
        # two clients on one resource, events while the second one loads
        out.append(S(fam, "two", [opn("c1"), opn("c2", "1.2.0"), sub("c1", "b"), Q, sub("c2", "b"), conn("c2"),
                                  ev("b", "add", a=1, val=R("d")), cache("b"), ev("b", "custom"), Q,
                                  ev("b", "remove", a=0), ev("b", "custom"), Q]))
    if fam == "stream":
        st = dict(settle=True)
        # an add / change event hands over a new resource whose own reference is still loading, while the service
        # emits events on the new resource: they must follow the event that hands it over
        res = {"b": {"k": "c", "c": [P('"q"')]}, "a": Mo(x=P("1")), "d": Mo(w=P("0"), r=R("e")), "e": Mo(v=P("1"))}
        out.append(SC(fam, "addnested", res,
                      [opn("c1"), sub("c1", "b"), Q, ev("b", "add", a=1, val=R("d"), **st), dict(reply("get", "d"), **st),
                       ev("d", "custom", **st), ev("d", "change", k="w", val=P("5"), **st), dict(reply("get", "e"), **st), Q, ev("d", "custom"), Q]))
        out.append(SC(fam, "changenested", res,
                      [opn("c1"), sub("c1", "a"), Q, ev("a", "change", k="x", val=R("d"), **st), dict(reply("get", "d"), **st),
                       ev("d", "custom", **st), ev("d", "change", k="w", val=P("5"), **st), dict(reply("get", "e"), **st), Q, ev("d", "custom"), Q]))
    if fam == "stream":
        # a resource that has changed since it was loaded is deleted by a not-found answer to a reset's re-fetch: every
        # holder gets the delete event
        out.append(SC(fam, "resetnotfound", {"a": Mo(x=P("1")), "b": {"k": "c", "c": [P("1")]}},
                      [opn("c1"), opn("c2"), sub("c1", "a"), sub("c1", "b"), Q, sub("c2", "a"), Q, ev("a", "change", k="x", val=P("2")), ev("b", "add", a=0, val=P("5")), Q,
                       {"op": "gone", "n": "a"}, {"op": "gone", "n": "b"}, {"op": "reset", "res": ["a", "b"], "acc": [], "settle": True},
                       dict(reply("get", "a"), settle=True), dict(reply("get", "b"), settle=True), Q]))
    if fam == "stream":
        # a change event replaces the reference x -> d by x -> c while c, still to be loaded, refers to d: the client holds d
        # throughout, so an event on d handed over meanwhile must reach it (defect repaired by fix ca71fbd)
        out.append(SC(fam, "refswap", {"a": Mo(x=R("d")), "d": Mo(w=P("0")), "c": Mo(x=R("d"), z=P("1"))},
                      [opn("c1"), sub("c1", "a"), Q, ev("a", "change", k="x", val=R("c"), settle=True), ev("d", "change", k="w", val=P("5"), settle=True),
                       dict(reply("get", "c"), settle=True), Q, ev("d", "custom"), ev("d", "change", k="w", val=P("6")), Q]))
    if fam == "stream":
        # clients of different protocol versions receive the same cached model / collection version (soft references and
        # data values are encoded differently for them), in both orders
        mixres = {"m": Mo(s={"t": "s", "v": "x"}, d={"t": "d", "v": '{"k":1}'}, p=P("1")), "col": {"k": "c", "c": [{"t": "s", "v": "x"}, {"t": "d", "v": '{"k":1}'}, P("2")]},
                  "x": Mo(z=P("1"))}
        for name, first, second in (("mixedver-lat", "latest", "1.2.0"), ("mixedver-leg", "1.2.0", "latest"), ("mixedver-111", "1.1.1", "latest")):
            out.append(SC(fam, name, mixres, [opn("c1", first), opn("c2", second), sub("c1", "m"), sub("c1", "col"), Q, sub("c2", "m"), sub("c2", "col"), Q,
                                              ev("m", "change", k="p", val=P("2")), Q, opn("c3", first), sub("c3", "m"), Q, opn("c4", second), sub("c4", "m"), Q]))
    if fam == "stream":
        # a change event that changes nothing must leave no trace: the events that follow are delivered as before, to the
        # client that held the resource and to one that subscribes afterwards
        out.append(SC(fam, "noopchange", {"a": Mo(x=P("1"), y=P("2"))},
                      [opn("c1"), opn("c2"), sub("c1", "a"), Q, ev("a", "change", k="x", val=P("5")), Q, {"op": "event", "n": "a", "ev": "change", "k": "x", "noop": True}, Q,
                       ev("a", "custom"), ev("a", "change", k="y", val=P("7")), Q, sub("c2", "a"), Q, ev("a", "change", k="x", val=P("9")), Q]))
    if fam == "stream":
        # one change event brings a new reference (the resource has to be loaded first) together with a soft reference and
        # a data value: a legacy client must get the legacy encoding of those on this path too
        for ver in ("1.2.0", "latest"):
            out.append(SC(fam, "changemixed-" + ver, {"a": Mo(x=P("1")), "d": Mo(w=P("0"))},
                          [opn("c1", ver), sub("c1", "a"), Q,
                           dict(ev("a", "change", k="x", val=R("d"), more={"s": {"t": "s", "v": "d"}, "dv": {"t": "d", "v": '{"k":1}'}}), settle=True),
                           dict(reply("get", "d"), settle=True), Q, ev("a", "custom"), Q]))
    if fam == "stream":
        st = dict(settle=True)
        rr = lambda **kw: dict({"op": "reset", "res": ["a"], "acc": []}, **kw)
        res2 = {"a": Mo(x=P("1")), "b": Mo(y=P("1"))}
        # a reset arrives while the initial get is outstanding and its re-fetch is answered first: afterwards events and
        # further resets must still work
        out.append(SC(fam, "resetbeforeinit", res2,
                      [opn("c1"), dict(sub("c1", "a"), **st), rr(**st), dict(reply("get", "a"), pick=1, **st), dict(reply("get", "a"), pick=0, **st),
                       Q, ev("a", "change", k="x", val=P("2"), **st), Q, {"op": "mutate", "n": "a", "k": "x", "val": P("7")}, rr(**st), Q, ev("a", "custom"), Q]))
        # a re-fetch that fails (timeout / error) with events meanwhile, then another reset
        for outc in ("timeout", "err"):
            out.append(SC(fam, "refetchfail-" + outc, res2,
                          [opn("c1"), dict(sub("c1", "a"), **st), Q, rr(**st), ev("a", "change", k="x", val=P("2"), **st), ev("a", "custom", **st),
                           dict(reply("get", "a", out=outc), **st), Q, ev("a", "change", k="x", val=P("3"), **st), Q,
                           {"op": "mutate", "n": "a", "k": "x", "val": P("7")}, rr(**st), Q]))
    if fam == "gc":
        # issue #241: releasing the last retained path while another parent is loading
        out.append(S(fam, "i241", [opn("c1"), sub("c1", "b"), Q, sub("c1", "a"), conn("c1"), cache("a"), reply("access", "a"),
                                   reply("get", "a"), cache("a"), cache("a"), conn("c1"), conn("c1"), unsub("c1", "b"), conn("c1"), Q]))
        out.append(S(fam, "cycle", [opn("c1"), sub("c1", "a"), Q, sub("c1", "d"), Q, unsub("c1", "a"), Q, unsub("c1", "d"), Q]))
        out.append(S(fam, "self", [opn("c1"), sub("c1", "f"), Q, get("c1", "f"), Q, unsub("c1", "f"), Q]))
    if fam == "gc":
        # a change event removes a model's reference to itself while a parent still references the model
        out.append(SC(fam, "selfref1", {"p": Mo(r=R("s")), "s": Mo(self=R("s"), x=P("1"))},
                      [opn("c1"), sub("c1", "p"), Q, ev("s", "change", k="self", val=P("0")), Q, ev("s", "custom"), Q,
                       ev("p", "change", k="r", val=P("0")), Q]))
        # the same with two events queued on the subscription while a sibling is still loading
        out.append(SC(fam, "selfref2", {"p": Mo(r=R("s"), t=R("t")), "s": Mo(self=R("s"), o=R("t")), "t": Mo(z=P("1"))},
                      [opn("c1"), sub("c1", "p"), conn("c1"), cache("p"), reply("access", "p"), reply("get", "p"), cache("p"), cache("p"),
                       conn("c1"), conn("c1"), cache("s"), cache("t"), reply("get", "s"), cache("s"), conn("c1"),
                       ev("s", "change", k="self", val=P("0")), cache("s"), conn("c1"),
                       ev("s", "change", k="o", val=P("0")), cache("s"), conn("c1"), Q]))
        # a node below a kept node (the client keeps it through another parent) when one parent is released
        out.append(SC(fam, "keptchild", {"r": Mo(k=R("k")), "b": Mo(k=R("k")), "k": Mo(f=R("f")), "f": Mo(z=P("1"))},
                      [opn("c1"), sub("c1", "r"), sub("c1", "b"), Q, unsub("c1", "r"), Q, ev("f", "change", k="z", val=P("2")), Q,
                       {"op": "mutate", "n": "f", "k": "z", "val": P("3")}, sub("c1", "f"), Q, ev("f", "custom"), Q, unsub("c1", "b"), Q,
                       ev("f", "custom"), Q]))
        # subscribe outstanding on a resource held only indirectly while an event removes the last reference
        out.append(SC(fam, "dropwhilepending", {"b": Mo(r1=R("c")), "c": Mo(z=P("1"))},
                      [opn("c1"), sub("c1", "b"), Q, sub("c1", "c"), conn("c1"), ev("b", "change", k="r1", val=P("0")), cache("b"), conn("c1"),
                       Q, ev("c", "custom"), Q]))
        # a get completes on a resource that a still loading subscription references: the get does not make the client
        # retain it, so the subscription's response must carry it (again)
        stg = dict(settle=True)
        out.append(SC(fam, "getduringload", {"p": Mo(m=R("m"), d=R("d")), "m": Mo(z=P("1")), "d": Mo(w=P("1"))},
                      [opn("c1"), dict(sub("c1", "p"), **stg), dict(reply("access", "p"), **stg), dict(reply("get", "p"), **stg),
                       dict(reply("get", "m"), **stg), dict(get("c1", "m"), **stg), dict(reply("access", "m"), **stg),
                       dict(reply("get", "d"), **stg), Q, ev("m", "custom"), Q]))
        # two requests wait for the same child while a queued event of the parent removes the reference to it: the first
        # response releases the parent's queue, the event disposes the child in the middle of its Loaded closure - the second
        # request must still be answered
        out.append(SC(fam, "disposeinloaded", {"p": Mo(child=R("s"), z=P("1")), "s": Mo(w=P("1"))},
                      [opn("c1"), dict(sub("c1", "p"), **stg), dict(sub("c1", "p"), **stg), dict(reply("access", "p"), **stg), dict(reply("get", "p"), **stg),
                       ev("p", "change", k="child", val=P("0"), **stg), dict(reply("get", "s"), **stg), Q, ev("p", "custom"), Q]))
        # one change event refers to a resource the client holds and to one that has to be loaded; while it loads the client
        # releases its only other path to the first: the event must then carry it
        out.append(SC(fam, "changemixedrelease", {"h": Mo(a=P("0"), b=P("0")), "x": Mo(z=P("1")), "slow": Mo(w=P("1"))},
                      [opn("c1"), sub("c1", "h"), sub("c1", "x"), Q,
                       dict(ev("h", "change", k="a", val=R("x"), more={"b": {"t": "r", "v": "slow"}}), **stg), dict(unsub("c1", "x"), **stg),
                       dict(reply("get", "slow"), **stg), Q, ev("x", "custom"), Q]))
        # a sent parent is released while another parent keeps the child; then the last delivered parent is released
        # while a third parent is still loading: its response must carry the child again
        out.append(SC(fam, "staleindirectsent", {"p1": Mo(m=R("m")), "p2": Mo(m=R("m")), "p3": Mo(m=R("m"), x=R("x")), "m": Mo(z=P("1")), "x": Mo(w=P("1"))},
                      [opn("c1"), sub("c1", "p1"), sub("c1", "p2"), Q, unsub("c1", "p1"), Q,
                       sub("c1", "p3"), conn("c1"), cache("p3"), reply("access", "p3"), reply("get", "p3"), cache("p3"), cache("p3"), conn("c1"), conn("c1"),
                       unsub("c1", "p2"), conn("c1"), Q, ev("m", "custom"), Q]))
        # a resource the client has released is kept (rightly marked unsent) by a parent that is still loading; an add
        # event on a held collection references it: the event must carry its data. Likewise for a failed resource
        # whose error placeholder the client has dropped.
        st = dict(settle=True)
        gres = {"m": Mo(z=P("1")), "col": {"k": "c", "c": [P('"q"')]}, "dp": Mo(child=R("m"), delayed=R("dl")), "dl": Mo(w=P("1")),
                "dq": Mo(child=R("nf"), delayed=R("dl")), "br": Mo(child=R("nf"))}
        out.append(SC(fam, "addunsent", gres,
                      [opn("c1"), sub("c1", "m"), sub("c1", "col"), Q, dict(sub("c1", "dp"), **st), dict(reply("access", "dp"), **st),
                       dict(reply("get", "dp"), **st), dict(unsub("c1", "m"), **st), ev("col", "add", a=1, val=R("m"), **st),
                       dict(reply("get", "dl"), **st), Q, ev("m", "custom"), Q]))
        out.append(SC(fam, "addunsenterr", gres,
                      [opn("c1"), sub("c1", "col"), Q, dict(sub("c1", "dq"), **st), dict(reply("access", "dq"), **st), dict(reply("get", "dq"), **st),
                       dict(sub("c1", "br"), **st), dict(reply("access", "br"), **st), dict(reply("get", "br"), **st),
                       dict(reply("get", "nf", out="notFound"), **st), dict(unsub("c1", "br"), **st), ev("col", "add", a=1, val=R("nf"), **st),
                       dict(reply("get", "dl"), **st), Q]))
    if fam == "gc":
        # the per-resource limit of 256 direct subscriptions: the request beyond it fails and leaves the count unchanged
        sb = dict(sub("c1", "t"), settle=True)
        out.append(SC(fam, "limit256", {"t": Mo(z=P("1"))},
                      [opn("c1")] + [sb] * 3 + [Q] + [sb] * 253 + [Q, sb, sb, Q, unsub("c1", "t", 257), Q, unsub("c1", "t", 255), Q,
                                                                       sb, Q, unsub("c1", "t", 2), Q, get("c1", "t"), Q]))
        # a get at the limit is refused and leaves the count unchanged too
        gt = dict(get("c1", "t"), settle=True)
        out.append(SC(fam, "limit256get", {"t": Mo(z=P("1"))},
                      [opn("c1")] + [sb] * 3 + [Q] + [sb] * 253 + [Q, gt, gt, Q, sb, Q, unsub("c1", "t", 257), Q, unsub("c1", "t", 256), Q, ev("t", "custom"), Q]))
    if fam.startswith("thr-reset"):
        # many connections on one resource, access reset, answers newest first (the shape of issue #217)
        cs = ["c%d" % i for i in range(1, 9)]
        steps = []
        for c in cs:
            steps += [opn(c), dict(sub(c, "e"), settle=True)]
        steps += [Q, {"op": "reset", "res": [">"], "acc": [">"], "settle": True}]
        steps += [{"op": "reply", "t": "", "pick": 7 - i, "settle": True} for i in range(8)] + [Q,
                  {"op": "reset", "acc": ["e"], "settle": True}, {"op": "reset", "acc": ["e"], "settle": True}]
        steps += [{"op": "reply", "t": "access", "pick": 3, "out": "deny", "settle": True}] * 4 + [Q]
        out.append(S(fam, "many", steps))
    if fam.startswith("thr-reset"):
        # a token reset reaches several connections; one of them gets a new token before the auth requests are answered:
        # every auth request carries the token its connection has when the request is sent
        tkc2 = lambda c, t: {"op": "token", "c": c, "tok": t, "tid": "tid1", "settle": True}
        out.append(S(fam, "tokenresetnewtoken", [opn("c1"), opn("c2"), opn("c3"), tkc2("c1", '"t1"'), tkc2("c2", '"t1"'), tkc2("c3", '"t1"'), Q,
                                                 {"op": "tokenreset", "tids": ["tid1"], "settle": True}, tkc2("c1", '"t2"'), tkc2("c2", '"t2"'), tkc2("c3", '"t2"'),
                                                 {"op": "reply", "t": "auth", "pick": 0, "settle": True}, {"op": "reply", "t": "auth", "pick": 0, "settle": True},
                                                 {"op": "reply", "t": "auth", "pick": 0, "settle": True}, Q]))
    if fam.startswith("thr-reset"):
        # a connection closes while its own throttled access request is outstanding and the service answers afterwards:
        # the answer must still release the next waiting request, for every connection left
        cs4 = ["c%d" % i for i in range(1, 5)]
        steps4 = []
        for c in cs4:
            steps4 += [opn(c), dict(sub(c, "e"), settle=True)]
        steps4 += [Q, {"op": "reset", "res": [], "acc": ["e"], "settle": True}, {"op": "close", "c": "@req", "settle": True}]
        steps4 += [{"op": "reply", "t": "access", "pick": 0, "settle": True}] * 5 + [Q, ev("e", "custom"), Q]
        out.append(S(fam, "closeholder", steps4))
        # the same with a connection that is still waiting for its turn in the throttle
        steps5 = [x for x in steps4]
        steps5[steps5.index({"op": "close", "c": "@req", "settle": True})] = {"op": "close", "c": "@other", "settle": True}
        out.append(S(fam, "closewaiting", steps5))
    if fam.startswith("thr-reset"):
        # a query resource loses its last subscriber while its re-fetch waits in the reset throttle: whatever the
        # gateway does with that re-fetch, the requests queued behind it must still be sent
        st2 = dict(settle=True)
        for first in ("e", "q?a=1"):
            second = "q?a=1" if first == "e" else "e"
            out.append(S(fam, "unsubqueued-" + first[0],
                         [opn("c1"), opn("c2"), dict(sub("c1", first), **st2), dict(sub("c1", second), **st2), dict(sub("c2", "b"), **st2), Q,
                          {"op": "reset", "res": [">"], "acc": [">"], "settle": True}, dict(unsub("c1", "q?a=1"), **st2)] +
                         [{"op": "reply", "t": "", "pick": 0, "settle": True}] * 12 + [Q, ev("e", "custom"), ev("b", "custom"), Q]))
    if fam == "access":
        st = dict(settle=True)
        tk = lambda t: {"op": "token", "c": "c1", "tok": t, "tid": "tid1", "settle": True}
        call = lambda rid: {"op": "send", "c": "c1", "m": "call", "rid": rid, "action": "a", "settle": True}
        # an access request of a call on an indirectly held resource is in flight while the token changes: its answer
        # (for the old token) must not back later calls
        out.append(S(fam, "stalecache", [opn("c1"), tk('"t1"'), dict(sub("c1", "a"), **st), Q, call("b"), tk('"t2"'),
                                         dict(reply("access", "b"), **st), dict(reply("call", "b"), **st), Q,
                                         call("b"), dict(reply("call", "b"), **st), dict(reply("access", "b", out="deny"), **st), Q]))
        # a call sent after the token change joins the access request that was in flight before it
        out.append(S(fam, "stalejoin", [opn("c1"), tk('"t1"'), dict(sub("c1", "a"), **st), Q, call("b"), tk('"t2"'), call("b"),
                                        dict(reply("access", "b"), **st), dict(reply("call", "b"), **st), dict(reply("call", "b"), **st), Q]))
        # a call answered with a resource response for a resource the client already holds through a parent: access is still
        # asked for it, and a refusal puts an error in place of the resource and leaves no direct subscription
        out.append(S(fam, "resrespsent", [opn("c1"), tk('"t1"'), dict(sub("c1", "a"), **st), Q, call("a"), dict(reply("access", "a"), **st),
                                          dict(reply("call", "a", out="res", arg="b"), **st), dict(reply("access", "b", out="deny"), **st), Q,
                                          dict(unsub("c1", "a"), **st), Q, ev("b", "custom"), Q]))
        # an access reset arrives after the access answer but before the get answer of a subscription that is loading
        out.append(S(fam, "resetwhileloading", [opn("c1"), tk('"t1"'), dict(sub("c1", "a"), **st), dict(reply("access", "a"), **st),
                                                {"op": "reset", "res": [], "acc": ["a"], "settle": True}, dict(reply("get", "a"), **st),
                                                dict(reply("get", "b"), **st), dict(reply("access", "a", out="deny"), **st), Q, ev("a", "custom"), Q]))
        # a call joins the access request of a subscribe on the same resource; the answer refuses get: the subscribe is
        # refused and its subscription given up - the call must still be answered (forwarded if call is granted)
        for outc in ("callonly", "deny", "err"):
            out.append(S(fam, "calljoinsdenied-" + outc, [opn("c1"), tk('"t1"'), dict(sub("c1", "a"), **st), call("a"), dict(reply("access", "a", out=outc), **st),
                                                          dict(reply("get", "a"), **st), dict(reply("get", "b"), **st), dict(reply("call", "a"), **st), Q]))
        # a call is answered with a resource response for a resource whose subscribe request of the same connection is still
        # waiting for its access answer: the data must wait for a verdict too (and a refusal leaves nothing behind)
        out.append(S(fam, "resrespwhileaccess", [opn("c1"), tk('"t1"'), dict(sub("c1", "b"), **st), dict(reply("get", "b"), **st), call("a"),
                                                 dict(reply("access", "a"), **st), dict(reply("call", "a", out="res", arg="b"), **st),
                                                 dict(reply("access", "b", out="deny"), **st), dict(reply("access", "b", out="deny"), **st), Q, ev("b", "custom"), Q]))
        # a resource response whose resource is refused while its get is still outstanding: nothing is left subscribed
        out.append(S(fam, "deniedresresp", [opn("c1"), tk('"t1"'), call("a"), dict(reply("access", "a"), **st),
                                            dict(reply("call", "a", out="res", arg="c"), **st), dict(reply("access", "c", out="deny"), **st),
                                            dict(unsub("c1", "c"), **st), dict(sub("c1", "c"), **st), dict(reply("get", "c"), **st), Q]))
        # the same with a reaccess event as the trigger
        out.append(S(fam, "stalecache2", [opn("c1"), tk('"t1"'), dict(sub("c1", "a"), **st), Q, call("b"), ev("b", "reaccess", **st),
                                          dict(reply("access", "b"), **st), dict(reply("call", "b"), **st), Q,
                                          call("b"), dict(reply("call", "b"), **st), dict(reply("access", "b", out="deny"), **st), Q]))
        # a {cid} tag in the query part of a resource id: each connection gets its own resource
        out.append(S(fam, "cidquery", [opn("c1"), opn("c2"), dict(sub("c1", "c?o={cid}"), **st), Q, dict(sub("c2", "c?o={cid}"), **st), Q,
                                       {"op": "send", "c": "c1", "m": "call", "rid": "c?o={cid}", "action": "a", "settle": True}, Q]))
        # a token reset listing an empty token id must not reach connections without a token id (no token, or a token set
        # without one); a listed id reaches exactly its connection
        tkc = lambda c, t, tid: {"op": "token", "c": c, "tok": t, "tid": tid, "settle": True}
        out.append(S(fam, "emptytid", [opn("c1"), opn("c2"), {"op": "open", "c": "c3", "ver": "latest"}, tkc("c1", '"t1"', "tid1"), tkc("c2", '"t2"', ""),
                                       {"op": "tokenreset", "tids": ["", "tid1"], "settle": True}, dict(reply("auth", "tokenreset"), **st), Q,
                                       {"op": "tokenreset", "tids": [""], "settle": True}, Q]))
    if fam == "life":
        # Stop while a get response is queued on the cache and the connection's dispose is queued on the connection:
        # the late Loaded closure runs behind the dispose closure, after the cache workers were stopped
        out.append(S(fam, "stoplate", [opn("c1"), sub("c1", "a"), conn("c1"), cache("a"), reply("access", "a"), reply("get", "a"),
                                       {"op": "stop"}, {"op": "start"}, opn("c2"), sub("c2", "a"), Q]))
        out.append(S(fam, "lostlate", [opn("c1"), opn("c2"), sub("c1", "a"), sub("c2", "b"), conn("c1"), conn("c2"), cache("a"), cache("b"),
                                       reply("get", "a"), reply("get", "b"), {"op": "mqlost"}, {"op": "open", "c": "c3"}, {"op": "start"},
                                       opn("c4"), sub("c4", "a"), Q]))
    if fam == "malformed":
        # the boundary indexes of a collection: remove at its length, add one past it - discarded, the collection goes on
        inj = lambda n, sh: {"op": "inject", "n": n, "shape": sh}
        out.append(S(fam, "boundaryidx", [opn("c1"), sub("c1", "b"), Q, inj("b", "remove-len"), Q, inj("b", "add-len1"), Q,
                                          ev("b", "add", a=0, val=P("7")), Q, inj("b", "remove-len"), inj("b", "add-len1"), Q, ev("b", "remove", a=0), Q,
                                          inj("b", "remove-len"), Q, ev("b", "custom"), Q]))
        # malformed connection and system events, one of each shape, with a subscribed client
        steps = [opn("c1"), {"op": "token", "c": "c1", "tok": '"t1"', "tid": "tid1", "settle": True}, sub("c1", "a"), Q]
        for sh in ("tok-empty", "tok-badjson", "tok-array", "tok-string", "tok-tidnum", "tok-unknownev", "sys-reset-empty", "sys-reset-badjson", "sys-reset-string",
                   "sys-reset-nums", "sys-treset-empty", "sys-treset-badjson", "sys-treset-string", "sys-treset-nosubject", "sys-unknown"):
            steps += [inj("a", sh), Q]
        steps += [ev("a", "custom"), Q]
        out.append(S(fam, "connsysshapes", steps))
        # client frames that are no request at all (empty, blank, not an object, cut short, without an id): discarded,
        # the connection and every other connection go on
        steps = [opn("c1"), opn("c2"), sub("c2", "a"), Q]
        for fr in ("", " \r\n\t", "[]", "42", "null", '"x"', "{", '{"id":', "{}", '{"method":"subscribe.b"}', '{"id":"1","method":"subscribe.b"}', "\x00", "}{"):
            steps += [{"op": "raw", "c": "c1", "raw": fr}, Q]
        steps += [sub("c1", "b"), Q, ev("a", "custom"), ev("b", "custom"), Q, unsub("c2", "a"), Q]
        out.append(S(fam, "clientframes", steps))
    if fam.startswith("thr-ref"):
        # references added by one change event after the subscription has been loaded are fetched under the same limit
        stt = dict(settle=True)
        out.append(SC(fam, "refsafterload", {"p": Mo(z=P("1")), "k1": Mo(z=P("1")), "k2": Mo(z=P("1")), "k3": Mo(z=P("1")), "k4": Mo(z=P("1"))},
                      [opn("c1"), dict(sub("c1", "p"), **stt), Q,
                       dict(ev("p", "change", k="a", val=R("k1"), more={"b": {"t": "r", "v": "k2"}, "c": {"t": "r", "v": "k3"}, "d": {"t": "r", "v": "k4"}}), **stt),
                       dict(reply("get", ""), pick=3, **stt), dict(reply("get", ""), pick=2, **stt), dict(reply("get", ""), pick=1, **stt), dict(reply("get", ""), pick=0, **stt),
                       Q, ev("p", "custom"), Q]))
    if fam == "life":
        # Stop / connection loss while a connection's worker is blocked writing to a client that has stopped reading:
        # the socket must be closed all the same, within the bounded time
        stl = dict(settle=True)
        for how in ("stop", "mqlost"):
            out.append(S(fam, "stalled-" + how,
                         [opn("c1"), opn("c2"), dict(sub("c1", "a"), **stl), Q, {"op": "stall", "c": "c1"},
                          dict(sub("c1", "b"), **stl), dict(reply("access", "b"), **stl), dict(reply("get", "b"), **stl),
                          dict(sub("c1", "c"), **stl), dict(reply("access", "c"), **stl), dict(reply("get", "c"), **stl),
                          ev("a", "custom", **stl), dict(sub("c2", "a"), **stl), {"op": how}, {"op": "start"}, opn("c3"), sub("c3", "a"), Q]))
    if fam == "cache":
        out.append(S(fam, "resub", [opn("c1"), sub("c1", "a"), Q, unsub("c1", "a"), Q, {"op": "time", "ms": 3000},
                                    sub("c1", "a"), Q, unsub("c1", "a"), Q, {"op": "time", "ms": 6000}, Q, sub("c1", "a"), Q]))
        # a system reset's re-fetch is still unanswered when the last subscriber leaves and the eviction delay runs out:
        # the entry must be freed all the same (then, or when the answer has come)
        out.append(S(fam, "evictwhileresetting", [opn("c1"), sub("c1", "a"), Q, {"op": "reset", "res": ["a"], "acc": [], "settle": True},
                                                  dict(unsub("c1", "a"), settle=True), {"op": "time", "ms": 6000}, {"op": "evict", "n": "a"}, dict(reply("get", "a"), settle=True),
                                                  {"op": "time", "ms": 6000}, Q]))
        # a resource id too long for the event subscription: the failed subscribe must not keep the entry in use
        longrid = "a." + "x" * 4100
        out.append(S(fam, "toolong", [opn("c1"), sub("c1", longrid), Q, sub("c1", longrid), Q, sub("c1", "a"), Q,
                                      {"op": "time", "ms": 6000}, Q]))
    if fam == "query":
        # a query event is answered while a reset's re-fetch of the query resource is outstanding, and the re-fetch then
        # fails: what the query answer told must still reach the clients
        stq2 = dict(settle=True)
        for outc in ("err", "timeout"):
            out.append(S(fam, "queryduringrefetch-" + outc,
                         [opn("c1"), dict(sub("c1", "q?a=1"), **stq2), Q, {"op": "reset", "res": ["q"], "acc": [], "settle": True},
                          {"op": "mutate", "n": "q?n=1", "a": 0, "val": P("9")}, ev("q", "query", **stq2), dict(reply("query", "q"), **stq2),
                          dict(reply("get", "q", out=outc), **stq2), Q, {"op": "mutate", "n": "q?n=1", "a": 0, "val": P("8")}, ev("q", "query"), Q]))
    if fam == "query":
        # a query resource that has been changed through a query event is then deleted by a not-found answer to the next
        # query request: every holder gets the delete event
        stq = dict(settle=True)
        out.append(S(fam, "querydelete", [opn("c1"), opn("c2"), dict(sub("c1", "q?a=1"), **stq), Q, dict(sub("c2", "q?a=1"), **stq), Q,
                                          {"op": "mutate", "n": "q?n=1", "a": 0, "val": P("9")}, ev("q", "query"), Q,
                                          {"op": "gone", "n": "q?n=1"}, ev("q", "query"), Q]))
    if fam == "query":
        # two aliasing queries both in flight
        out.append(S(fam, "alias2", [opn("c1"), sub("c1", "q?a=1"), conn("c1"), cache("q"), sub("c1", "q?b=1"), conn("c1"), cache("q"),
                                     reply("access", "q"), reply("access", "q"), reply("get", "q"), cache("q"), reply("get", "q"), cache("q"),
                                     Q, {"op": "mutate", "n": "q?n=1", "a": 0, "val": P("9")}, ev("q", "query"), Q]))
    if fam == "query":
        st = dict(settle=True)
        # two aliases of one normalised query, the second linked to the already loaded resource; all leave while another
        # query keeps the entry cached; a resubscribe through the second alias must fetch anew and take part in query events
        out.append(S(fam, "stalelink", [opn("c1"), opn("c2"), dict(sub("c1", "q?c=2"), **st), dict(sub("c1", "q?a=1"), **st), Q,
                                        dict(sub("c2", "q?b=1"), **st), Q, dict(unsub("c1", "q?a=1"), **st), dict(unsub("c2", "q?b=1"), **st), Q,
                                        {"op": "mutate", "n": "q?n=1", "a": 0, "val": P("9")}, dict(sub("c2", "q?b=1"), **st), Q,
                                        {"op": "mutate", "n": "q?n=1", "a": 0, "val": P("8")}, ev("q", "query"), Q]))
    return out
