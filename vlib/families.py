"""Schedule families: scenario configuration, ResEnv constants and directed schedules."""
import json
import os
import re
import shutil

from .common import SPEC, MachineryError, tlc, tlc_stats, log


def P(v):
    return {"t": "p", "v": v}


def R(v):
    return {"t": "r", "v": v}


def S(v):
    return {"t": "s", "v": v}


def D(v):
    return {"t": "d", "v": v}


X = {"t": "x", "v": ""}


def M(**kv):
    return {"k": "m", "m": kv}


def C(*vals):
    return {"k": "c", "c": list(vals)}


NF = {"k": "nf"}


def tla(v):
    """Python value -> TLA+ expression."""
    if isinstance(v, bool):
        return "TRUE" if v else "FALSE"
    if isinstance(v, int):
        return str(v)
    if isinstance(v, str):
        return json.dumps(v)
    if isinstance(v, dict):
        return "[" + ", ".join("%s |-> %s" % (k, tla(x)) for k, x in v.items()) + "]"
    if isinstance(v, (set, frozenset)):
        return "{" + ", ".join(sorted(tla(x) for x in v)) + "}"
    if isinstance(v, (list, tuple)):
        return "<<" + ", ".join(tla(x) for x in v) + ">>"
    raise TypeError(v)


class TSet(list):
    """A list rendered as a TLA+ set (elements may be unhashable dicts)."""


def tla_any(v):
    if isinstance(v, TSet):
        return "{" + ", ".join(tla_any(x) for x in v) + "}"
    return tla(v)


GRAPH = {
    "a": M(x=P("1"), r1=R("b"), r2=R("c")),
    "b": M(y=P("1"), r1=R("c")),
    "c": C(P('"q"'), R("d")),
    "d": M(z=P("1"), r1=R("a"), s=S("a"), dv=D('{"k":[1,2]}')),
    "e": NF,
    "f": M(self=R("f"), w=P("true")),
}

FAMILIES = {
    # reference-counting collector, resource sets, direct counts, responses
    "gc": dict(
        cfg=dict(family="gc", resources=GRAPH),
        consts=dict(
            Conns=TSet(["c1"]), Vers=TSet(["latest", "1.2.0"]),
            Rids=TSet(["a", "b", "c", "d", "e", "f"]), CallRids=TSet(["a", "b"]), ResRids=TSet(["b", "d", "e"]),
            Names=TSet(["a", "b", "c", "d"]), Keys=TSet(["r1", "r2", "x"]),
            Vals=TSet([P("1"), P("2"), R("b"), R("c"), R("d"), R("e"), R("f"), S("b"), X]),
            AccessOuts=TSet(["ok", "ok", "deny", "timeout"]), GetOuts=TSet(["ok", "ok", "ok", "notFound", "timeout"]),
            CallOuts=TSet(["ok", "res", "err"]), QueryOuts=TSet(["full"]),
            Tokens=TSet(['"t1"']), Patterns=TSet([[]]),
            Features=TSet(["unsub", "get", "call", "count", "events", "custom", "quiesce"]),
            Weights=["int", "int", "int", "int", "reply", "reply", "reply", "cli", "cli", "svc", "svc", "misc"],
            MaxSteps=45),
        depth=46),
    # event streams: ordering, version filter, queue / unqueue, resets
    "stream": dict(
        cfg=dict(family="stream", resources={
            "a": M(x=P("1"), r1=R("b")),
            "b": C(P('"q"'), R("c"), S("a"), D('{"k":1}')),
            "c": M(z=P("1")),
            "d": M(w=P("0"), r=R("e")),
            "e": M(v=P("1")),
        }),
        consts=dict(
            Conns=TSet(["c1", "c2"]), Vers=TSet(["latest", "1.2.0", "1.1.1"]),
            Rids=TSet(["a", "b", "c"]), CallRids=TSet(["a"]), ResRids=TSet(["c"]),
            Names=TSet(["a", "b", "c", "d"]), Keys=TSet(["x", "r1", "y"]),
            Vals=TSet([P("1"), P("2"), P('"s"'), R("c"), R("d"), S("c"), D('{"k":2}'), X]),
            AccessOuts=TSet(["ok"]), GetOuts=TSet(["ok"]),
            CallOuts=TSet(["ok"]), QueryOuts=TSet(["full"]),
            Tokens=TSet(['"t1"']), Patterns=TSet([[], ["a"], ["*"], [">"], ["b", "c"]]),
            Features=TSet(["unsub", "get", "events", "custom", "reset", "mutate", "reaccess", "quiesce"]),
            Weights=["int", "int", "int", "int", "reply", "reply", "cli", "svc", "svc", "svc", "trig", "misc"],
            MaxSteps=50),
        depth=51),
    # access control: grants, tokens, reaccess, revocation
    "access": dict(
        cfg=dict(family="access", resources={
            "a": M(x=P("1"), r1=R("b")),
            "b": M(y=P("1")),
            "c": C(P("1")),
            "u.{cid}": M(me=P("true")),
            "c?o={cid}": C(P("2")),
        }),
        consts=dict(
            Conns=TSet(["c1", "c2"]), Vers=TSet(["latest", "1.1.1"]),
            Rids=TSet(["a", "b", "c", "u.{cid}", "c?o={cid}"]), CallRids=TSet(["a", "b", "u.{cid}", "c?o={cid}"]), ResRids=TSet(["b", "c"]),
            Names=TSet(["a", "b", "c"]), Keys=TSet(["x"]),
            Vals=TSet([P("1"), P("2")]),
            AccessOuts=TSet(["ok", "ok", "deny", "nocall", "list", "callonly", "denied", "err", "timeout", "missing", "noresp"]),
            GetOuts=TSet(["ok", "ok", "notFound"]),
            CallOuts=TSet(["ok", "res", "err", "timeout"]), QueryOuts=TSet(["full"]),
            Tokens=TSet(['"t1"', '"t2"', "null"]), Patterns=TSet([[], ["a"], [">"], ["u.*"]]),
            Features=TSet(["unsub", "get", "call", "events", "custom", "reaccess", "token", "tokenreset", "reset", "close", "quiesce"]),
            Weights=["int", "int", "int", "int", "reply", "reply", "reply", "cli", "cli", "svc", "trig", "trig", "misc"],
            MaxSteps=50),
        depth=51),
    # cache entry lifecycle: use counts, eviction, delete, errors, disconnects
    "cache": dict(
        cfg=dict(family="cache", resources={
            "a": M(x=P("1"), r1=R("b")),
            "b": M(y=P("1")),
            "c": C(P("1"), R("b")),
            "e": NF,
        }),
        consts=dict(
            Conns=TSet(["c1", "c2", "c3"]), Vers=TSet(["latest"]),
            Rids=TSet(["a", "b", "c", "e"]), CallRids=TSet(["a", "e"]), ResRids=TSet(["b"]),
            Names=TSet(["a", "b", "c"]), Keys=TSet(["x", "r1"]),
            Vals=TSet([P("1"), P("2"), R("b"), X]),
            AccessOuts=TSet(["ok", "ok", "ok", "deny", "timeout"]), GetOuts=TSet(["ok", "ok", "notFound", "timeout", "err"]),
            CallOuts=TSet(["ok", "res", "timeout"]), QueryOuts=TSet(["full"]),
            Tokens=TSet(['"t1"']), Patterns=TSet([[]]),
            Features=TSet(["unsub", "get", "call", "events", "delete", "close", "time", "quiesce"]),
            Weights=["int", "int", "int", "int", "reply", "reply", "reply", "cli", "cli", "svc", "trig", "misc", "misc"],
            MaxSteps=50),
        depth=51),
    # query resources: normalisation, aliases, query events
    "query": dict(
        cfg=dict(family="query", resources={
            "q?n=1": C(P("1"), P("2")),
            "q?n=2": C(P("3")),
            "m?n=1": M(x=P("1")),
            "m": M(x=P("0")),
            "q": C(P("0")),
        }, qnorm={"q?a=1": "n=1", "q?b=1": "n=1", "q?n=1": "n=1", "q?c=2": "n=2", "q?n=2": "n=2",
                  "m?a=1": "n=1", "m?n=1": "n=1"}),
        consts=dict(
            Conns=TSet(["c1", "c2"]), Vers=TSet(["latest"]),
            Rids=TSet(["q?a=1", "q?b=1", "q?n=1", "q?c=2", "m?a=1", "m?n=1", "m", "q"]), CallRids=TSet(["q?a=1"]), ResRids=TSet(["q?b=1"]),
            Names=TSet(["q", "m", "q?n=1", "q?n=2", "m?n=1"]), Keys=TSet(["x", "y"]),
            Vals=TSet([P("1"), P("2"), P("5"), X]),
            AccessOuts=TSet(["ok"]), GetOuts=TSet(["ok", "ok", "ok", "notFound", "timeout"]),
            CallOuts=TSet(["ok", "res"]), QueryOuts=TSet(["full", "events", "empty", "err", "notFound", "timeout"]),
            Tokens=TSet(['"t1"']), Patterns=TSet([[], ["q"], ["*"]]),
            Features=TSet(["unsub", "get", "events", "custom", "query", "mutate", "reset", "quiesce"]),
            Weights=["int", "int", "int", "int", "reply", "reply", "reply", "cli", "cli", "trig", "trig", "svc", "misc"],
            MaxSteps=50),
        depth=51),
}

THR_GRAPH = {
    "a": M(r1=R("b"), r2=R("c"), r3=R("d"), x=P("1")),
    "b": M(r1=R("e"), r2=R("f")),
    "c": M(r1=R("e")),
    "d": C(R("e"), R("g"), R("b")),
    "e": M(z=P("1")),
    "f": M(back=R("a")),
    "g": NF,
}

for _lim in (1, 2):
    FAMILIES["thr-ref%d" % _lim] = dict(
        cfg=dict(family="thr-ref%d" % _lim, resources=THR_GRAPH, referenceThrottle=_lim),
        consts=dict(
            Conns=TSet(["c1", "c2"]), Vers=TSet(["latest"]),
            Rids=TSet(["a", "b", "d", "f"]), CallRids=TSet(["a"]), ResRids=TSet(["a", "d"]),
            Names=TSet(["a", "b", "d", "e"]), Keys=TSet(["r1", "r4", "x"]),
            Vals=TSet([P("1"), R("b"), R("d"), R("f"), R("g"), X]),
            AccessOuts=TSet(["ok", "ok", "deny", "timeout"]), GetOuts=TSet(["ok", "ok", "ok", "notFound", "timeout"]),
            CallOuts=TSet(["ok", "res"]), QueryOuts=TSet(["full"]),
            Tokens=TSet(['"t1"']), Patterns=TSet([[]]),
            Features=TSet(["unsub", "get", "call", "events", "custom", "close", "quiesce"]),
            Weights=["int", "int", "int", "int", "reply", "reply", "reply", "reply", "cli", "cli", "svc", "misc"],
            MaxSteps=50),
        depth=51)
    FAMILIES["thr-reset%d" % _lim] = dict(
        cfg=dict(family="thr-reset%d" % _lim, resources=dict(THR_GRAPH, **{"q?n=1": C(P("1")), "q": C(P("0"))}), qnorm={"q?a=1": "n=1", "q?n=1": "n=1"},
                 resetThrottle=_lim),
        consts=dict(
            Conns=TSet(["c1", "c2", "c3"]), Vers=TSet(["latest"]),
            Rids=TSet(["a", "b", "d", "e", "q?a=1"]), CallRids=TSet(["a"]), ResRids=TSet(["e"]),
            Names=TSet(["a", "b", "d", "e", "q"]), Keys=TSet(["x", "z"]),
            Vals=TSet([P("1"), P("2"), X]),
            AccessOuts=TSet(["ok", "ok", "deny", "timeout"]), GetOuts=TSet(["ok", "ok", "notFound", "timeout", "err"]),
            CallOuts=TSet(["ok"]), QueryOuts=TSet(["full"]),
            Tokens=TSet(['"t1"', '"t2"']), Patterns=TSet([[], [">"], ["a", "b"], ["*"], ["e"], ["a", ">"]]),
            Features=TSet(["unsub", "events", "custom", "reset", "mutate", "token", "tokenreset", "reaccess", "close", "quiesce"]),
            Weights=["int", "int", "int", "int", "reply", "reply", "reply", "reply", "cli", "trig", "trig", "svc", "misc"],
            MaxSteps=50),
        depth=51)

FAMILIES["life"] = dict(
    cfg=dict(family="life", resources={"a": M(x=P("1"), r1=R("b")), "b": M(y=P("1")), "c": C(P("1"))}),
    consts=dict(
        Conns=TSet(["c1", "c2", "c3"]), Vers=TSet(["latest"]),
        Rids=TSet(["a", "b", "c"]), CallRids=TSet(["a"]), ResRids=TSet(["b"]),
        Names=TSet(["a", "b", "c"]), Keys=TSet(["x"]),
        Vals=TSet([P("1"), P("2")]),
        AccessOuts=TSet(["ok", "ok", "timeout"]), GetOuts=TSet(["ok", "ok", "timeout"]),
        CallOuts=TSet(["ok", "res"]), QueryOuts=TSet(["full"]),
        Tokens=TSet(['"t1"']), Patterns=TSet([[], [">"]]),
        Features=TSet(["unsub", "get", "call", "events", "custom", "delete", "reset", "close", "time", "stop", "stall", "quiesce"]),
        Weights=["int", "int", "int", "reply", "reply", "cli", "cli", "cli", "svc", "trig", "misc", "misc"],
        MaxSteps=45),
    depth=46)

EVENT_SHAPES = ["chg-partial", "chg-partial-obj", "chg-badval-first", "chg-ambiguous", "chg-unknown-action", "chg-emptyrid", "chg-badrid",
                "chg-wildrid", "chg-notobject", "chg-badjson", "chg-null", "chg-novalues", "chg-string", "add-neg", "add-oob", "add-noidx-badval",
                "add-badvalue", "add-delete-action", "add-stridx", "add-float", "add-huge", "add-badjson", "add-emptyrid", "remove-neg",
                "remove-oob", "remove-len", "add-len1", "remove-str", "remove-badjson", "evt-noname", "query-nosubject", "query-badjson", "query-numsubject",
                "tok-empty", "tok-badjson", "tok-array", "tok-string", "tok-tidnum", "tok-unknownev",
                "sys-reset-empty", "sys-reset-badjson", "sys-reset-string", "sys-reset-nums", "sys-treset-empty", "sys-treset-badjson", "sys-treset-string",
                "sys-treset-nosubject", "sys-unknown"]
REPLY_SHAPES = ["both", "neither", "noresult", "badjson", "empty", "null-result", "model-badvalue", "model-objvalue", "coll-delete", "model-array",
                "coll-object", "model-emptyrid", "model-wildrid", "error-nocode", "error-string", "get-string", "result-array", "resource-badrid",
                "resource-empty", "resource-wild", "resource-num", "events-notarray", "events-badevent", "events-removelen", "events-badchange", "events-and-model",
                "meta-string", "meta-status-str", "meta-header-str"]

FAMILIES["malformed"] = dict(
    cfg=dict(family="malformed", resources={
        "a": M(a1=P('"v"'), x=P("1"), r1=R("b")), "b": C(P("1"), R("c"), P("2")), "c": M(a1=P('"w"'), z=P("1")),
        "q?n=1": C(P("1")), "q": C(P("0"))}, qnorm={"q?a=1": "n=1", "q?n=1": "n=1"}),
    consts=dict(
        Conns=TSet(["c1", "c2"]), Vers=TSet(["latest", "1.2.0"]),
        Rids=TSet(["a", "b", "c", "q?a=1"]), CallRids=TSet(["a"]), ResRids=TSet(["c"]),
        Names=TSet(["a", "b", "c", "q"]), Keys=TSet(["a1", "x"]),
        Vals=TSet([P("1"), P("2"), P('"s"'), R("c"), X]),
        AccessOuts=TSet(["ok"]), GetOuts=TSet(["ok"]), CallOuts=TSet(["ok", "res"]), QueryOuts=TSet(["full", "events"]),
        Tokens=TSet(['"t1"']), Patterns=TSet([[], [">"]]),
        Shapes=TSet(EVENT_SHAPES), BadOuts=TSet(["bad:" + x for x in REPLY_SHAPES]),
        Features=TSet(["unsub", "call", "events", "custom", "reset", "mutate", "query", "inject", "quiesce"]),
        Weights=["int", "int", "int", "int", "reply", "reply", "reply", "cli", "cli", "svc", "svc", "svc", "trig", "misc"],
        MaxSteps=50),
    depth=51)

for _f in FAMILIES.values():
    _f["consts"].setdefault("Shapes", TSet([]))
    _f["consts"].setdefault("BadOuts", TSet([]))

CONST_ORDER = ["Conns", "Vers", "Rids", "CallRids", "ResRids", "Names", "Keys", "Vals", "AccessOuts", "GetOuts",
               "CallOuts", "QueryOuts", "Tokens", "Patterns", "Shapes", "BadOuts", "Features", "Weights", "MaxSteps"]


def write_env_model(fam, workdir):
    f = FAMILIES[fam]
    shutil.copy(os.path.join(SPEC, "ResEnv.tla"), workdir)
    lines = ["---- MODULE MCEnv ----", "EXTENDS ResEnv"]
    cfg = ["SPECIFICATION Spec", "CONSTANTS"]
    for k in CONST_ORDER:
        lines.append("c%s == %s" % (k, tla_any(f["consts"][k])))
        cfg.append(" %s <- c%s" % (k, k))
    lines.append("====")
    with open(os.path.join(workdir, "MCEnv.tla"), "w") as fh:
        fh.write("\n".join(lines) + "\n")
    with open(os.path.join(workdir, "MCEnv.cfg"), "w") as fh:
        fh.write("\n".join(cfg) + "\n")


H_RE = re.compile(r"/\\ h = <<(.*)>>\s*$")


def parse_sim_file(path):
    """The history h of the last state of a simulated behaviour."""
    last = None
    with open(path) as fh:
        for ln in fh:
            m = H_RE.match(ln.rstrip("\n"))
            if m:
                last = m.group(1)
    if last is None:
        return []
    strs = json.loads("[" + last + "]")
    return [json.loads(s) for s in strs]


def generate(fam, n, sd, workdir):
    """Let TLC simulate ResEnv for the family and return n schedules plus TLC statistics."""
    f = FAMILIES[fam]
    d = os.path.join(workdir, "env-" + fam)
    os.makedirs(os.path.join(d, "sim"), exist_ok=True)
    write_env_model(fam, d)
    p = tlc("MCEnv.tla", d, ["-deadlock", "-simulate", "file=sim/b,num=%d" % n, "-depth", str(f["depth"]), "-seed", str(sd)],
            timeout=600)
    if "Error" in p.stdout and "traces generated" not in p.stdout:
        raise MachineryError("TLC simulation failed for family %s:\n%s" % (fam, p.stdout[-3000:]))
    gen, _ = tlc_stats(p.stdout)
    scheds = []
    files = sorted(os.listdir(os.path.join(d, "sim")), key=lambda x: int(x.split("_")[-1]))
    for i, fn in enumerate(files):
        steps = parse_sim_file(os.path.join(d, "sim", fn))
        if not steps:
            continue
        steps = steps + [{"op": "quiescent"}, {"op": "final"}]
        scheds.append({"id": "%s-s%d-%d" % (fam, sd, i), "cfg": f["cfg"], "steps": steps})
    shutil.rmtree(d, ignore_errors=True)
    if len(scheds) < n // 2:
        raise MachineryError("TLC produced only %d of %d schedules for %s:\n%s" % (len(scheds), n, fam, p.stdout[-2000:]))
    return scheds, gen
