"""Family pipeline: TLC-generated schedules -> real gateway -> recorded traces -> TLC observer."""
import fcntl
import json
import os
import shutil
import subprocess

from .common import (OUT, SPEC, MachineryError, Timer, build_harness, log, read_ndjson, tlc, tlc_stats, tree_hash,
                     write_json)
from . import families, directed, windows


def run_harness(binp, scheds, workdir, tag):
    """Replay schedules on the real gateway. Returns (records, crashes)."""
    spath = os.path.join(workdir, "sched-%s.ndjson" % tag)
    opath = os.path.join(workdir, "trace-%s.ndjson" % tag)
    prog = os.path.join(workdir, "progress-%s" % tag)
    todo = list(scheds)
    records, crashes = [], []
    rounds = 0
    while todo:
        rounds += 1
        if rounds > 50:
            raise MachineryError("harness keeps crashing")
        with open(spath, "w") as f:
            for s in todo:
                f.write(json.dumps(s) + "\n")
        if os.path.exists(prog):
            os.remove(prog)
        env = dict(os.environ, VERIF_SCHED=spath, VERIF_OUT=opath, VERIF_PROGRESS=prog)
        p = subprocess.run([binp, "-test.run", "^TestRun$", "-test.timeout", "30m"], env=env, cwd=workdir,
                           stdout=subprocess.PIPE, stderr=subprocess.STDOUT, text=True)
        recs = read_partial(opath)
        cur = open(prog).read().strip() if os.path.exists(prog) else ""
        if p.returncode == 0 and cur == "done":
            records += recs
            break
        # the process died while running schedule `cur`
        done_ids = [r["trace"] for r in recs if r["e"] == "end"]
        keep = []
        ok = set(done_ids)
        cut = []
        for r in recs:
            cut.append(r)
            if r["e"] == "end":
                keep += cut
                cut = []
        records += keep
        crashed = next((s for s in todo if s["id"] == cur), None)
        if crashed is None:
            raise MachineryError("harness failed without a schedule in progress:\n" + p.stdout[-3000:])
        msg = crash_message(p.stdout)
        crashes.append({"schedule": crashed, "output": p.stdout[-6000:], "msg": msg})
        records.append({"e": "reset", "trace": crashed["id"], "family": crashed["cfg"].get("family", ""), "free": False})
        records.append({"e": "panic", "msg": msg})
        records.append({"e": "end", "trace": crashed["id"], "executed": 0, "skipped": 0})
        todo = [s for s in todo if s["id"] not in ok and s["id"] != cur]
    return records, crashes


def crash_message(out):
    for ln in out.splitlines():
        if ln.startswith("panic:") or ln.startswith("fatal error:"):
            return ln[:300]
    return "harness process died: " + out[-200:].replace("\n", " | ")


def read_partial(path):
    out = []
    if not os.path.exists(path):
        return out
    with open(path) as f:
        for ln in f:
            ln = ln.strip()
            if not ln:
                continue
            try:
                out.append(json.loads(ln))
            except ValueError:
                break
    return out


def _observe_one(records, d):
    os.makedirs(d, exist_ok=True)
    for f in ("ResObserver.tla", "ObserverTrace.tla", "CacheOps.tla", "CacheTrace.tla", "SubQueueTrace.tla", "ResQueueTrace.tla", "SubAccessTrace.tla", "ResSubTrace.tla", "SubReadyTrace.tla", "ConnQueueTrace.tla"):
        shutil.copy(os.path.join(SPEC, f), d)
    with open(os.path.join(d, "ObserverTrace.cfg"), "w") as f:
        f.write("SPECIFICATION TraceSpec\nPOSTCONDITION TraceAccepted\nCHECK_DEADLOCK FALSE\n")
    with open(os.path.join(d, "trace.ndjson"), "w") as f:
        for r in records:
            f.write(json.dumps(r) + "\n")
    vp = os.path.join(d, "viol.json")
    if os.path.exists(vp):
        os.remove(vp)
    p = tlc("ObserverTrace.tla", d, [], timeout=3000, java_opts="-Xss512m -Xmx3g")
    gen, distinct = tlc_stats(p.stdout)
    if not os.path.exists(vp) or "Error:" in p.stdout or distinct != len(records) + 1:
        raise MachineryError("trace validation did not consume the trace to the end (%d of %d lines) [%s]\n%s"
                             % (distinct - 1, len(records), d, p.stdout[-3000:]))
    viol = json.load(open(vp))
    shutil.rmtree(d, ignore_errors=True)
    return viol, distinct


def observe(records, workdir, tag):
    """Validate recorded traces with TLC against ObserverTrace. Returns (violations, states).
    The traces of one run are independent (the observer starts afresh at every "reset" record), so a long
    concatenation is cut at trace boundaries and the pieces are validated by several TLC processes at once."""
    d = os.path.join(workdir, "obs-" + tag)
    CH = 25000
    if len(records) <= 2 * CH:
        return _observe_one(records, d)
    chunks, cur = [], []
    for r in records:
        if r["e"] == "reset" and len(cur) >= CH:
            chunks.append(cur)
            cur = []
        cur.append(r)
    if cur:
        chunks.append(cur)
    from concurrent.futures import ThreadPoolExecutor
    offs, o = [], 0
    for c in chunks:
        offs.append(o)
        o += len(c)
    with ThreadPoolExecutor(max_workers=6) as ex:
        outs = list(ex.map(lambda ic: _observe_one(ic[1], "%s-%d" % (d, ic[0])), enumerate(chunks)))
    viol, states = [], 0
    for (v, st), off in zip(outs, offs):
        for x in v:
            if isinstance(x.get("l"), int):
                x["l"] += off
            viol.append(x)
        states += st - 1
    return viol, states + 1


def split_traces(records):
    traces, cur = {}, None
    for r in records:
        if r["e"] == "reset":
            cur = r["trace"]
            traces[cur] = []
        if cur is not None:
            traces[cur].append(r)
    return traces


NUM = {"quick": 120, "thorough": 1500}
WNUM = {"quick": 150, "thorough": 4000}


def run_family(fam, tier, sd, workdir, binp=None, use_cache=True):
    """Run (or reuse) the pipeline of one family. Returns a result dict."""
    th = tree_hash()
    cdir = os.path.join(OUT, "cache")
    os.makedirs(cdir, exist_ok=True)
    cpath = os.path.join(cdir, "%s-%s-%s-%d.json" % (th, fam, tier, sd))
    lock = open(cpath + ".lock", "w")
    fcntl.flock(lock, fcntl.LOCK_EX)
    try:
        if use_cache and os.path.exists(cpath):
            res = json.load(open(cpath))
            res["cached"] = True
            return res
        t = Timer()
        if binp is None:
            binp = build_harness(workdir)
        n = NUM[tier]
        wtotal = None
        if fam.startswith("win-"):
            scheds, envstates, wtotal = windows.generate(fam, WNUM[tier], sd, workdir)
        elif fam == "ready":
            from . import readygen
            scheds, envstates = readygen.generate(n, sd, workdir)
        else:
            scheds, envstates = families.generate(fam, n, sd, workdir)
            scheds = directed.schedules(fam) + scheds
        records, crashes = run_harness(binp, scheds, workdir, fam)
        viol, states = observe(records, workdir, fam)
        traces = split_traces(records)
        byid = {s["id"]: s for s in scheds}
        executed = sum(r.get("executed", 0) for r in records if r["e"] == "end")
        skipped = sum(r.get("skipped", 0) for r in records if r["e"] == "end")
        kinds = {}
        for r in records:
            kinds[r["e"]] = kinds.get(r["e"], 0) + 1
        vout = []
        for v in viol:
            s = byid.get(v["tr"])
            vout.append(dict(v, schedule=s))
        sample = None
        for tid, recs in traces.items():
            if len(recs) > 30 and not tid.startswith("dir-"):
                sample = {"schedule": byid[tid]["steps"][:12], "trace_excerpt": [x for x in recs if x["e"] in ("creq", "cres", "cev", "mreq", "mres", "mevt")][:10]}
                break
        res = dict(family=fam, tier=tier, seed=sd, tree=th, schedules=len(scheds), traces=len(traces),
                   trace_lines=len(records), observer_states=states, env_states=envstates,
                   executed_steps=executed, skipped_steps=skipped, kinds=kinds, violations=vout,
                   crashes=[dict(id=c["schedule"]["id"], msg=c["msg"]) for c in crashes],
                   sample=sample, wall_s=t.s(), cached=False, window_total=wtotal,
                   distinct_schedules=len({json.dumps(s["steps"], sort_keys=True) for s in scheds}))
        write_json(cpath, res)
        return res
    finally:
        fcntl.flock(lock, fcntl.LOCK_UN)
        lock.close()


def rerun_schedule(sched, workdir, binp=None):
    """Re-execute one schedule and validate it. Returns the violations."""
    if binp is None:
        binp = build_harness(workdir)
    records, crashes = run_harness(binp, [sched], workdir, "replay")
    viol, _ = observe(records, workdir, "replay")
    return viol, records
