"""Property registry: which machinery decides which property."""
import json
import os
from dataclasses import dataclass, field

from .common import MachineryError, build_harness, log
from . import pipeline
from . import tables


@dataclass
class Ctx:
    pid: str
    tier: str
    seed: int
    workdir: str
    use_cache: bool
    known: dict
    binp: str = None

    def harness(self):
        if self.binp is None:
            self.binp = build_harness(self.workdir)
        return self.binp


def match_known(known, pid, v):
    pid = v.get("p", pid)
    """A violation is attributed to an open finding only if the finding's signature tag was
    computed for it by the observer (kf field) and the finding lists this property."""
    kf = v.get("kf", "")
    if not kf:
        return None
    for f in known.get("findings", []):
        if f.get("status", "open") == "open" and f["id"] == kf and pid in f["properties"]:
            return f
    return None


def gateway_run(fams, nontrivial_kinds, also=(), also_fams=None):
    """also: predicates of other properties that, on these families, are part of this property's statement."""
    def run(ctx):
        viols, cov_f = [], {}
        tot = dict(states=0, transitions=0, traces=0, steps=0, skipped=0, env_states=0, schedules=0, distinct=0, lines=0)
        samples = []
        relevant = 0
        for fam in fams:
            res = pipeline.run_family(fam, ctx.tier, ctx.seed, ctx.workdir, binp=None if ctx.use_cache else ctx.harness(),
                                      use_cache=ctx.use_cache)
            for v in res["violations"]:
                if v["p"] == ctx.pid or (v["p"] in also and (also_fams is None or fam in also_fams)):
                    viols.append(v)
            if ctx.pid in ("C15",):
                for v in res["violations"]:
                    if v["p"] == "C15" and v not in viols:
                        viols.append(v)
            tot["states"] += res["observer_states"]
            tot["transitions"] += res["observer_states"] - 1
            tot["traces"] += res["traces"]
            tot["steps"] += res["executed_steps"]
            tot["skipped"] += res["skipped_steps"]
            tot["env_states"] += res["env_states"]
            tot["schedules"] += res["schedules"]
            tot["distinct"] += res["distinct_schedules"]
            tot["lines"] += res["trace_lines"]
            relevant += sum(res["kinds"].get(k, 0) for k in nontrivial_kinds)
            cov_f[fam] = {k: res[k] for k in ("schedules", "traces", "trace_lines", "executed_steps", "skipped_steps", "env_states", "kinds", "wall_s", "cached", "tree", "window_total")}
            if res.get("sample"):
                samples.append(dict(family=fam, **res["sample"]))
        cov = dict(states=max(1, tot["states"]), transitions=max(1, tot["transitions"]),
                   traces_validated_against_impl=tot["traces"], samples=samples or [{"note": "no trace long enough for a sample"}],
                   evaluations=tot["steps"], distinct_nontrivial=tot["distinct"],
                   rule="schedules are behaviours of spec/ResEnv.tla simulated by TLC (-simulate, seed VERIF_SEED) plus directed schedules; "
                        "each is replayed step by step on the real gateway under gates; distinct = distinct step sequences; "
                        "states/transitions = states of spec/ObserverTrace.tla generated while validating the recorded traces "
                        "(every property predicate evaluated in each)",
                   relevant_events=relevant, skipped_steps=tot["skipped"], env_model_states=tot["env_states"], families=cov_f,
                   exhaustive=False)
        return dict(coverage=cov, violations=viols, level="model_checking",
                    assumptions=["responses and events of one service reach the gateway in publish order",
                                 "the harness mq.Client honours the adapter contract (one completion per request, no callback after Close)",
                                 "gated execution serialises cache batches; lock-release windows inside a batch are covered by free-running mode only"])
    return run


def confirm(ctx, new):
    """Re-execute the schedule of each new violation (up to 5 times); only reproduced ones count."""
    out = []
    seen = set()
    for v in new:
        s = v.get("schedule")
        if s is None:
            if v.get("confirmed"):
                out.append(v)
            continue
        if s["id"] in seen:
            continue
        seen.add(s["id"])
        # Go map iteration order makes executions of one schedule differ; up to 5 more executions
        hit = False
        for _ in range(5):
            viol, _ = pipeline.rerun_schedule(s, ctx.workdir, ctx.harness())
            if any(x["p"] == v["p"] for x in viol):
                hit = True
                break
        if hit:
            out.append(v)
        else:
            log("not reproduced:", v["p"], v["why"][:200])
        if len(out) >= 5:
            break
    return out


def replay(v, workdir):
    s = v.get("schedule")
    if s is None:
        raise MachineryError("no schedule in replay file")
    viol, _ = pipeline.rerun_schedule(s, workdir)
    return viol


EV = ["cres", "cev"]
PROPS = {
    "C01": dict(run=gateway_run(["stream", "gc", "query", "win-load", "win-query", "win-alias", "win-gc", "win-reset1", "win-reset2"], EV)),
    "C02": dict(run=tables.combine(gateway_run(["gc", "stream", "win-gc", "win-load", "ready"], EV), tables.tables_run(["gc"], "collector"))),
    # on the query family events reach clients as derived change / add / remove sequences: a lost one shows as divergence (C01 predicate)
    "C03": dict(run=gateway_run(["stream", "access", "win-load", "win-recheck", "win-reset2", "query"], ["cev"], also=("C01",), also_fams={"query"})),
    "C07": dict(run=gateway_run(["gc", "access", "win-gc", "win-recheck", "thr-ref1"], ["cres"])),
    "C08": dict(run=gateway_run(["gc", "cache", "win-gc", "win-evict"], ["cres"])),
    "C09": dict(run=gateway_run(["cache", "query", "win-evict"], ["msub", "munsub", "mreq"])),
    "C10": dict(run=gateway_run(["access", "win-recheck", "win-indirect"], ["mreq", "cres", "cev"])),
    # after a disconnect everything held for the connection must be gone: on these families the cache-release rules count as C11 too
    "C11": dict(run=gateway_run(["cache", "access", "win-evict", "thr-reset1"], ["close", "sockClosed"], also=("C09",))),
    "C04": dict(run=gateway_run(["access", "cache", "win-recheck", "win-indirect"], ["mres", "cres"])),
    "C05": dict(run=tables.combine(gateway_run(["access", "win-recheck"], ["mreq"]), tables.tables_run(["calllist", "access", "callsubject"], "CanCall / access verdict / call subject"))),
    "C12": dict(run=tables.combine(tables.tables_run(["pattern", "coldiff", "modeldiff"], "reset matching / diff"),
                                   gateway_run(["stream", "win-load", "win-alias"], ["mreq", "cev"], also=("C01",)))),
    "C06": dict(run=gateway_run(["access", "stream", "win-recheck", "win-load"], ["note", "cev"])),
    "C13": dict(run=gateway_run(["query", "win-query", "win-alias"], ["mreq", "mres"], also=("C01",))),
    "C15": dict(run=gateway_run(["malformed", "gc", "stream", "access", "cache", "query", "win-load", "win-recheck", "win-query", "win-alias", "win-evict", "win-gc", "win-indirect", "win-reset1", "win-reset2"], ["cres", "cev"],
                                # containment: on the malformed-message family every other predicate is part of C15
                                also=("C01", "C02", "C03", "C04", "C05", "C07", "C08", "C09", "C13"), also_fams={"malformed"})),
}


GW_NOTE = ("Trusted base: TLC, the Go toolchain, testing/synctest as the blocking barrier, the harness's normaliser (syntactic) and service "
           "simulator. Verdicts come only from traces of the real code; the coarse environment model (spec/ResEnv.tla) only generates schedules. "
           "Bounded: small resource universes, schedules of <= 50 steps.")


def _t(level, technique, note=GW_NOTE, **kw):
    return dict(level=level, technique=technique, note=note, **kw)


TECH = "TLC-generated schedules replayed on the real gateway under gates; recorded traces validated by TLC against the TLA+ observer spec (spec/ObserverTrace.tla)"
TEXT = {
    "C01": _t("At every quiescent point of every replayed schedule TLC evaluates, on the recorded trace, that the reference client's copy equals the state announced over the MQ boundary (all value kinds, three protocol versions, shared resources).", TECH),
    "C02": _t("After every client frame of every replayed schedule TLC checks on the trace that the reference client has no dangling reference and that every event is applicable (held resource, kind, index range); the readiness replay (SubReadyTrace.tla against SubReadyOps) requires that a subscription is collected only after all its references are ready or visited, that a ready callback fires - and a subscription is marked sent - only when nothing reachable is still loading.", TECH),
    "C03": _t("spec/SubQueue.tla (one subscription's event queue under every interleaving of events, loading, new references, re-check triggers, access answers and the client leaving) is model-checked exhaustively for NoLossNoReorder and IdleDrained; every queue note of the replayed gateway schedules is replayed per subscription object through the same operators (spec/SubQueueTrace.tla: path of every event, processed only when not queueing and only as the received event or the queue head, flags and lengths). At the client boundary: sequence-numbered custom and change events - order, duplicates, gaps at delivery time, completeness at quiescence per (client, resource) holding period, and no event for a resource the client does not hold (before it is handed over / after release).",
              "TLC exhaustive on SubQueue.tla + per-note conformance (SubQueueTrace.tla) + observer rules on gateway traces"),
    "C04": _t("Access ledger in the observer: every response that hands a root resource to a client must be backed by a get grant answered for that connection that no processed trigger has invalidated. Table access: every access response over 6 x 8 x 5 member options (get / call / error present, null, of the wrong JSON type; result absent, null, an array) through the real decoder and CanGet / CanCall, checked by TLC against spec/fn/ResAccess.tla (an error response is never a grant, whatever its code). Table httpaccess: 30 access responses x 4 meta members x HTTP GET / POST of two methods through the real ServeHTTP; TLC checks status, body and service requests against the same verdict (a meta object without a status changes nothing about the grant).",
              TECH + " + function table of access verdicts checked by TLC against spec/fn/ResAccess.tla"),
    "C05": _t("Every call forwarded to a service must be backed by a valid grant allowing the method; every access/call/auth request must carry the connection's current token.", TECH),
    "C06": _t("spec/SubQueue.tla is model-checked for TriggerKept / DeferredOnlyWhileQueueing / Rechecked (a trigger is never forgotten and leads to an access request or the end of the subscription); SubQueueTrace.tla checks on every gateway trace that a re-check is never started while queueing, is deferred only while queueing and that the deferred flag equals the model's. At the boundary, after each processed trigger on a directly subscribed resource: an access request sent after the trigger follows, nothing handed over after the trigger is delivered before the verdict, a refusal ends in an unsubscribe event with the reason; after a token change every direct subscription is re-checked.",
              "TLC exhaustive on SubQueue.tla + per-note conformance (SubQueueTrace.tla) + observer rules on gateway traces"),
    "C07": _t("Pending-request ledger: no response for an unknown id, none twice, none missing at quiescence, error shape. spec/SubReady.tla (the ready callbacks that release responses: OnReady / onLoaded / collectRefs / Loaded / doneLoading over every reference graph on three resources, loads in any order, failing loads) is model-checked exhaustively: a callback fires exactly once, only when everything reachable is loaded, and always eventually; the rdy* / subRef* notes of every gateway trace are replayed against SubReadyOps by SubReadyTrace.tla; family ready: behaviours of SubReady.tla itself (simulated by TLC through SubReadyGen.tla: sampled reference graphs on four resources, requests, loads completing or failing in any order, references brought by events) are replayed on the real gateway.",
              "TLC exhaustive on SubReady.tla + TLC-generated schedules replayed on the real gateway, traces validated by the observer spec (incl. the SubReadyTrace micro-step replay)"),
    "C08": _t("spec/DirectCount.tla states the counter design (count at receipt, give back on failure / get, limit) with Exact, UnsubRule and LimitHeld; TLC shows them for the repaired design and shows UnsubRule violated for the code-shaped variant - finding KF-H as a named deviation. On the real gateway: per (connection, rid) counter of confirmed direct subscriptions compared with the gateway's snapshot at quiescence; every unsubscribe outcome predicted from the counter; the limit-256 schedule.",
              "TLC exhaustive on DirectCount.tla (design, both variants) + TLC-generated schedules replayed on the real gateway, traces validated by the observer spec"),
    "C09": _t("MQ boundary rules (get only under an established event subscription, no duplicate subscription), use count = subscribers at quiescence, nothing left after the (fake-time) eviction delay, gauges zero. Table httpconn: after each of 420 HTTP requests no cached resource counts the temporary connection, and after the eviction delay the cache and its event subscriptions are gone.", TECH),
    "C10": _t("Every client frame scanned for every live connection id; every connection-bound request must carry the id of a live connection and its token; a token reset's auth request only for a connection whose own non-empty token id is listed (resets listing an empty id, connections without a token id). Table httptoken: the token of every request of an HTTP call while the service sets, replaces or revokes the temporary connection's token during header auth and during the access request (spec/fn/HttpTokenCheck.tla).", TECH),
    "C11": _t("Disconnects at arbitrary points of the schedules; after the connection's conn subscription is removed no request may carry its id, it must be gone from the snapshot, use counts must match subscribers. spec/ConnQueue.tla (Enqueue / outputWorker / dispose of a connection: every accepted closure runs exactly once in order, also those queued behind the dispose closure, refusals only after it, the worker leaves exactly when everything has run) is model-checked exhaustively; the cq* notes of every gateway trace are replayed against it by ConnQueueTrace.tla; spec/ConnQueueInd.tla (its counting abstraction) carries an inductive invariant that Apalache checks, and spec/ConnQueueProof.tla proves it with TLAPS, so the safety part holds for any number of closures. Table httpconn: 420 HTTP requests (GET / POST, with and without references, every outcome of header auth, access, get / call: granted, refused, failed, timed out, answered by a meta status) through the real ServeHTTP; TLC checks that once the response is written nothing is outstanding or registered for the temporary connection (spec/fn/HttpConnCheck.tla).",
              "TLAPS proof (ConnQueueProof.tla) + TLC exhaustive on ConnQueue.tla + Apalache inductive invariant (ConnQueueInd.tla) + TLC-generated schedules with disconnects replayed on the real gateway, traces validated by the observer spec (incl. the ConnQueueTrace replay)"),
    "C13": _t("Query families: aliasing queries, query events with every answer kind; convergence (C01 predicate) per alias rid, lock released at quiescence, no stall.", TECH),
    "C12": _t("spec/ResSub.tla (cached content against an ordered service channel: initial get, state / custom events, silent mutations revealed by resets, re-fetch) is model-checked exhaustively: no gap, subscribers told what the cache holds, convergence, one re-fetch at a time, every reset eventually re-fetched. Pattern matching and both diff routines are checked exhaustively over bounded domains against definitional TLA+ modules (spec/fn/ResPattern.tla, ResDiff.tla); the protocol part (re-fetch of exactly the matching cached resources, convergence after silent mutations + reset) is checked on replayed schedules by the observer.",
              "TLC exhaustive on ResSub.tla + exhaustive function tables checked by TLC against spec/fn + TLC-generated schedules with resets validated by the observer spec",
              note="Tables: patterns <= 4 (thorough 5) symbols over {a,b,.,*,>,?} plus invalid-character variants x all valid names <= 5 over {a,b,.}; collections <= 3 (4) long over three value tokens; models over 2 (3) keys x 5 value options. " + GW_NOTE),
    "C15": _t("Any panic of the gateway process or failure to reach quiescence in any replayed schedule of any family is a violation; the crashing schedule is the replay. The malformed family injects 33 event shapes and 29 response shapes, including the boundary indexes of the collection as cached (remove at its length, add one past it), and a directed schedule sends 13 client frames that are no request (empty, blank, not an object, cut short, without an id) next to a bystander connection. Table values: every value object over 8 x 5 x 6 x 5 member options (rid / soft / data / action present, null, of the wrong JSON type, empty, invalid, ambiguous combinations, extra members) plus primitives and arrays, in the four places a service can put a value, through the real decoders; TLC checks the kind of value or the rejection against spec/fn/ResValue.tla.", TECH),
}
NOT_YET = {}


def throttle_model(ctx):
    """Exhaustive TLC run of spec/Throttle.tla (safety + liveness) and validation of the directly driven real Throttle."""
    import os, shutil, json
    from .common import SPEC, tlc, tlc_stats, MachineryError
    from . import tables
    d = os.path.join(ctx.workdir, "throttle-mc")
    os.makedirs(d, exist_ok=True)
    shutil.copy(os.path.join(SPEC, "Throttle.tla"), d)
    tot_s = tot_t = 0
    for lim in (1, 2, 3):
        with open(os.path.join(d, "Throttle.cfg"), "w") as f:
            f.write("SPECIFICATION Spec\nCONSTANTS Limit = %d\n MaxAdds = %d\nINVARIANTS TypeOK Bounded Saturated Consistent QueuedNotStarted FIFO\n"
                    "PROPERTIES AllStart\nCHECK_DEADLOCK FALSE\n" % (lim, 6 if ctx.tier == "quick" else 8))
        p = tlc("Throttle.tla", d, [], timeout=900, workers=4)
        if "No error has been found" not in p.stdout:
            raise MachineryError("Throttle.tla does not satisfy its own properties (model bug):\n" + p.stdout[-2000:])
        g, dist = tlc_stats(p.stdout)
        tot_s += dist
        tot_t += g
    # unbounded in depth: the safety properties follow from an invariant that Apalache shows inductive (Limit 1..4, <= 7 callbacks)
    from .common import apalache_inductive
    shutil.copy(os.path.join(SPEC, "ThrottleInd.tla"), d)
    ind = apalache_inductive("ThrottleInd.tla", d)
    # unbounded: TLAPS proof of the bound for every Limit and any number of callbacks
    import re as _re
    pd = os.path.join(d, "proof")
    os.makedirs(pd, exist_ok=True)
    shutil.copy(os.path.join(SPEC, "ThrottleProof.tla"), pd)
    from .common import run as _run
    pr0 = _run(["timeout", "900", "tlapm", "--threads", "8", "ThrottleProof.tla"], cwd=pd, check=False)
    mm = _re.search(r"All (\d+) obligations? proved", pr0.stdout)
    if not mm:
        raise MachineryError("tlapm did not prove ThrottleProof.tla:\n" + pr0.stdout[-1500:])
    proved = int(mm.group(1))
    # direct drive of the real Throttle
    binp = tables.build_fn(ctx.workdir)
    td = os.path.join(ctx.workdir, "thrtrace")
    os.makedirs(td, exist_ok=True)
    env = dict(os.environ, VERIF_OUT=td, VERIF_THR_RUNS="300" if ctx.tier == "quick" else "3000", VERIF_SEED=str(ctx.seed))
    from .common import run
    pr = run([binp, "-test.run", "^TestTraceThrottle$"], cwd=td, env=env, check=False)
    viols = []
    lines = 0
    if pr.returncode != 0:
        viols.append(dict(p="C19", why="the real Throttle crashed when driven directly: " + pr.stdout[-600:], kf="", confirmed=True))
    else:
        shutil.copy(os.path.join(SPEC, "ThrottleTrace.tla"), td)
        os.replace(os.path.join(td, "throttle.ndjson"), os.path.join(td, "trace.ndjson"))
        with open(os.path.join(td, "ThrottleTrace.cfg"), "w") as f:
            f.write("SPECIFICATION Spec\nPOSTCONDITION Accepted\nCHECK_DEADLOCK FALSE\n")
        p = tlc("ThrottleTrace.tla", td, [], timeout=900)
        vp = os.path.join(td, "viol.json")
        if not os.path.exists(vp) or "Error:" in p.stdout:
            raise MachineryError("ThrottleTrace validation failed:\n" + p.stdout[-2000:])
        _, lines = tlc_stats(p.stdout)
        for v in json.load(open(vp))[:5]:
            viols.append(dict(p="C19", why="directly driven Throttle: " + v["why"], kf="", confirmed=True))
    cov = dict(states=tot_s, transitions=tot_t, traces_validated_against_impl=1, evaluations=lines, distinct_nontrivial=lines,
               samples=[{"model": "spec/Throttle.tla limits 1..3, invariants Bounded/Saturated/Consistent/FIFO, liveness AllStart under WF(Done)"},
                        {"apalache": "spec/ThrottleInd.tla: Init => IndInv, IndInv /\\ Next => IndInv', IndInv => Safety (%d obligations, Limit 1..4, up to 7 callbacks, any depth)" % ind},
                        {"tlaps": "spec/ThrottleProof.tla: THEOREM Spec => []Bounded for every Limit in Nat and any number of callbacks, %d proof obligations discharged by tlapm" % proved}],
               rule="exhaustive TLC on Throttle.tla; random Add/Done orders on the real Throttle validated step by step by ThrottleTrace.tla", exhaustive=False)
    return dict(coverage=cov, violations=viols, level="model_checking", assumptions=["every started callback eventually calls Done (weak fairness)"])



def cache_model(ctx):
    """Exhaustive TLC run of spec/CacheEntry.tla: the design the per-note rules of CacheTrace.tla compare the real entry with."""
    import os, shutil
    from .common import SPEC, tlc, tlc_stats, MachineryError
    d = os.path.join(ctx.workdir, "cache-mc")
    os.makedirs(d, exist_ok=True)
    for f in ("CacheOps.tla", "CacheEntry.tla"):
        shutil.copy(os.path.join(SPEC, f), d)
    subs, req, pop = ("{s1, s2, s3}", 2, 2) if ctx.tier == "quick" else ("{s1, s2, s3, s4}", 3, 3)
    with open(os.path.join(d, "CacheEntry.cfg"), "w") as f:
        f.write("SPECIFICATION Spec\nCONSTANTS Subscribers = %s\n MaxReq = %d\n MaxPopped = %d\n"
                "INVARIANTS CountIsUses NeverNegative KeptWhileUsed QueuedOnlyIdle IdleIsQueued Gauges SubscribedBeforeFetch\n"
                "PROPERTIES Released\nCHECK_DEADLOCK FALSE\n" % (subs, req, pop))
    p = tlc("CacheEntry.tla", d, [], timeout=1800, workers=4)
    if "No error has been found" not in p.stdout:
        raise MachineryError("CacheEntry.tla does not satisfy its own properties (model bug):\n" + p.stdout[-2000:])
    g, dist = tlc_stats(p.stdout)
    # any depth: the invariants follow from one that Apalache shows inductive (5 subscribers, MaxReq 1..6, MaxPopped 1..4)
    from .common import apalache_inductive
    shutil.copy(os.path.join(SPEC, "CacheEntryInd.tla"), d)
    ind = apalache_inductive("CacheEntryInd.tla", d)
    cov = dict(states=dist, transitions=g, samples=[{"apalache": "spec/CacheEntryInd.tla: Init => IndInv, IndInv /\\ Next => IndInv', IndInv => Safety (%d obligations)" % ind}, {"model": "spec/CacheEntry.tla Subscribers=%s MaxReq=%d MaxPopped=%d; invariants CountIsUses NeverNegative KeptWhileUsed "
                                                     "QueuedOnlyIdle IdleIsQueued Gauges SubscribedBeforeFetch; liveness Released under WF" % (subs, req, pop)}],
               rule="exhaustive TLC on CacheEntry.tla; its operators (CacheOps.tla) are replayed on every cache note of the gateway traces by CacheTrace.tla", exhaustive=False)
    return dict(coverage=cov, violations=[], level="model_checking", assumptions=["the eviction timer eventually fires (weak fairness)"])


PROPS["C09"] = dict(run=tables.combine(cache_model, gateway_run(["cache", "query", "win-evict"], ["msub", "munsub", "mreq", "note"])))
TEXT["C09"] = _t("spec/CacheEntry.tla (one action per critical section of a cache entry: getSubscription, addSubscriber, Unsubscribe, delete / failed get, request start / end, timer pop, eviction callback) is model-checked exhaustively for count = users, kept while used, idle entries queued, gauges, subscribe-before-fetch and eventual release; on every replayed gateway schedule each cache note (taken inside those critical sections, tag verif) is replayed through the same operators (spec/CacheTrace.tla) and the logged use count, created flag, subscription flag, subscriber-set sizes and eviction outcome must equal the model's; plus MQ boundary rules (get only under an established event subscription, no duplicate subscription), nothing left after the (fake-time) eviction delay, gauges zero.",
                 "TLC exhaustive on CacheEntry.tla + per-note conformance of the real cache entry (CacheTrace.tla) + observer rules on gateway traces")


def resqueue_model(ctx):
    """Exhaustive TLC run of spec/ResQueue.tla (work queue of a cached resource with the query-event lock)."""
    import os, shutil
    from .common import SPEC, tlc, tlc_stats, MachineryError
    d = os.path.join(ctx.workdir, "resqueue-mc")
    os.makedirs(d, exist_ok=True)
    shutil.copy(os.path.join(SPEC, "ResQueue.tla"), d)
    work, lock = (6, 2) if ctx.tier == "quick" else (8, 3)
    with open(os.path.join(d, "ResQueue.cfg"), "w") as f:
        f.write("SPECIFICATION Spec\nCONSTANTS\n MaxWork = %d\n MaxLock = %d\n"
                "INVARIANTS SingleWorker FIFO NoWorkLocked SlotsAccounted NothingStuck NoLostUnlock\nPROPERTIES AllRun\nCHECK_DEADLOCK FALSE\n" % (work, lock))
    p = tlc("ResQueue.tla", d, [], timeout=3000, workers=8)
    if "No error has been found" not in p.stdout:
        raise MachineryError("ResQueue.tla does not satisfy its own properties (model bug):\n" + p.stdout[-2000:])
    g, dist = tlc_stats(p.stdout)
    cov = dict(states=dist, transitions=g, samples=[{"model": "spec/ResQueue.tla MaxWork=%d MaxLock=%d; invariants SingleWorker FIFO NoWorkLocked SlotsAccounted NothingStuck NoLostUnlock; liveness AllRun under WF" % (work, lock)}],
               rule="exhaustive TLC on ResQueue.tla; its transitions are replayed on every queue note of the gateway traces by ResQueueTrace.tla", exhaustive=False)
    return dict(coverage=cov, violations=[], level="model_checking", assumptions=["every locked slot is eventually given back (query requests are answered or time out)"])


PROPS["C13"] = dict(run=tables.combine(resqueue_model, gateway_run(["query", "win-query", "win-alias"], ["mreq", "mres", "note"], also=("C01",))))
TEXT["C13"] = _t("spec/ResQueue.tla (the resource's work queue: Enqueue, enqueueUnlock, lockEvents, processQueue item by item, worker channel tokens) is model-checked exhaustively: one worker at a time, FIFO, no ordinary work while query-event slots are outstanding, slots accounted, nothing stuck, every enqueued item eventually runs; every queue note of the replayed gateway schedules (taken under the entry's mutex, tag verif) is replayed through the same transitions (spec/ResQueueTrace.tla). On the query families the observer additionally checks: convergence (C01 predicate) per alias rid; per query event no second request for one normalised query, none for a query that is not cached, every still-subscribed continuously cached query asked; no numbered event handed over after the query event delivered while its requests are unanswered; lock released at quiescence, no stall.",
                 "TLC exhaustive on ResQueue.tla + per-note conformance of the real work queue (ResQueueTrace.tla) + observer rules on gateway traces")


def subaccess_model(ctx):
    """Exhaustive TLC run of spec/SubAccess.tla (access cache of a subscription) - repaired design passes, the design before fix 783f622 must fail."""
    import os, shutil
    from .common import SPEC, tlc, tlc_stats, MachineryError
    d = os.path.join(ctx.workdir, "subaccess-mc")
    os.makedirs(d, exist_ok=True)
    shutil.copy(os.path.join(SPEC, "SubAccess.tla"), d)
    req, ep = (5, 3) if ctx.tier == "quick" else (7, 4)
    def cfg(rep):
        with open(os.path.join(d, "SubAccess.cfg"), "w") as f:
            f.write("SPECIFICATION Spec\nCONSTANTS\n MaxReq = %d\n MaxEpoch = %d\n Repaired = %s\n"
                    "INVARIANTS NoStaleCache FreshOnArrival OneInFlight WaitersKnown\nPROPERTIES Decided\nCHECK_DEADLOCK FALSE\n" % (req, ep, rep))
    cfg("TRUE")
    p = tlc("SubAccess.tla", d, [], timeout=1800, workers=4)
    if "No error has been found" not in p.stdout:
        raise MachineryError("SubAccess.tla does not satisfy its own properties (model bug):\n" + p.stdout[-2000:])
    g, dist = tlc_stats(p.stdout)
    cfg("FALSE")
    p2 = tlc("SubAccess.tla", d, [], timeout=1800, workers=4)
    if "is violated" not in p2.stdout:
        raise MachineryError("SubAccess.tla with Repaired = FALSE should violate NoStaleCache (the model lost its bite):\n" + p2.stdout[-1500:])
    cov = dict(states=dist, transitions=g, samples=[{"model": "spec/SubAccess.tla MaxReq=%d MaxEpoch=%d Repaired=TRUE; invariants NoStaleCache FreshOnArrival OneInFlight WaitersKnown; liveness Decided; with Repaired=FALSE TLC finds NoStaleCache violated (the defect repaired by 783f622); FreshAtDecision is violated by design (KF-R)" % (req, ep)}],
               rule="exhaustive TLC on SubAccess.tla; its transitions are replayed on every access-cache note of the gateway traces by SubAccessTrace.tla", exhaustive=False)
    return dict(coverage=cov, violations=[], level="model_checking", assumptions=["every access request is eventually answered or times out"])


# (thr-reset1: token resets and token changes with a reset throttle configured - every auth request carries the connection's token)
PROPS["C05"] = dict(run=tables.combine(subaccess_model, gateway_run(["access", "win-recheck", "win-indirect", "thr-reset1"], ["mreq", "note"]),
                                       tables.tables_run(["calllist", "access", "callsubject"], "CanCall / access verdict / call subject")))
TEXT["C05"] = _t("spec/SubAccess.tla (the subscription's access cache: one request in flight, waiting callers, cached answer, reaccess in epochs) is model-checked exhaustively: the cached answer was requested in the current epoch, no request is decided on an answer requested before the last reaccess that preceded it, every request is decided; the same module with Repaired = FALSE reproduces the repaired defect. Every access-cache note of the replayed gateway schedules is replayed through the same transitions (spec/SubAccessTrace.tla). The observer's access ledger requires for every forwarded call (attributed to client requests in FIFO order) a valid answer allowing the method ('*' or an exact entry), not invalidated by a processed trigger and not requested before a token change that it was handed over after; every access / call / auth request carries the connection's processed token. CanCall is checked exhaustively as a table against spec/fn/CallList.tla. Table callsubject (spec/fn/CallSubjectCheck.tla on the rows of the subjects table: WebSocket call / new, HTTP POST and mapped PUT / DELETE / PATCH paths with percent-encoded characters and URL queries): every call request names the resource the access request of the same client request named, and its method is one subject token.",
                 "TLC exhaustive on SubAccess.tla + per-note conformance (SubAccessTrace.tla) + access ledger on gateway traces + exhaustive CanCall table")


def ressub_model(ctx):
    """Exhaustive TLC run of spec/ResSub.tla (cached content against an ordered service channel, initial get, events, resets)."""
    import os, shutil
    from .common import SPEC, tlc, tlc_stats, MachineryError
    d = os.path.join(ctx.workdir, "ressub-mc")
    os.makedirs(d, exist_ok=True)
    shutil.copy(os.path.join(SPEC, "ResSub.tla"), d)
    ev, rst, cu, fl = (5, 2, 1, 2) if ctx.tier == "quick" else (6, 3, 2, 2)
    def cfg(rep):
        with open(os.path.join(d, "ResSub.cfg"), "w") as f:
            f.write("SPECIFICATION Spec\nCONSTANTS\n MaxEv = %d\n MaxReset = %d\n MaxCustom = %d\n MaxFail = %d\n Repaired = %s\nINVARIANTS Told OneRefetch Converges\nPROPERTIES NoGap Refetched\nCHECK_DEADLOCK FALSE\n" % (ev, rst, cu, fl, rep))
    cfg("TRUE")
    p = tlc("ResSub.tla", d, [], timeout=3000, workers=8)
    if "No error has been found" not in p.stdout:
        raise MachineryError("ResSub.tla does not satisfy its own properties (model bug):\n" + p.stdout[-2000:])
    g, dist = tlc_stats(p.stdout)
    cfg("FALSE")
    p2 = tlc("ResSub.tla", d, [], timeout=3000, workers=8)
    if "Invariant Converges is violated" not in p2.stdout:
        raise MachineryError("ResSub.tla with Repaired = FALSE should violate Converges (the repaired defect: events dropped during a re-fetch that then fails):\n" + p2.stdout[-1500:])
    cov = dict(states=dist, transitions=g, samples=[{"model": "spec/ResSub.tla MaxEv=%d MaxReset=%d MaxCustom=%d MaxFail=%d Repaired=TRUE; invariants Told OneRefetch Converges; action property NoGap; liveness Refetched; with Repaired=FALSE (events dropped during a re-fetch) TLC finds Converges violated when the re-fetch fails" % (ev, rst, cu, fl)}],
               rule="exhaustive TLC on ResSub.tla (design: discarding events before the initial answer and during a re-fetch is sound under FIFO delivery); bound to the code through the observer's C01 / C12 rules and the OneRefetch rule on resetres notes", exhaustive=False)
    return dict(coverage=cov, violations=[], level="model_checking", assumptions=["everything one service publishes reaches the gateway in publish order"])


PROPS["C12"] = dict(run=tables.combine(ressub_model, tables.tables_run(["pattern", "coldiff", "modeldiff"], "reset matching / diff"),
                                       gateway_run(["stream", "win-load", "win-alias", "win-reset1", "win-reset2"], ["mreq", "cev"], also=("C01",))))


def connqueue_model(ctx):
    """Exhaustive TLC run of spec/ConnQueue.tla (the work queue of one client connection: Enqueue / outputWorker / dispose)."""
    import os, shutil
    from .common import SPEC, tlc, tlc_stats, MachineryError
    d = os.path.join(ctx.workdir, "connqueue-mc")
    os.makedirs(d, exist_ok=True)
    shutil.copy(os.path.join(SPEC, "ConnQueue.tla"), d)
    n = 6 if ctx.tier == "quick" else 9
    def cfg(skip):
        with open(os.path.join(d, "ConnQueue.cfg"), "w") as f:
            f.write("SPECIFICATION Spec\nCONSTANTS\n MaxWork = %d\n SkipBehind = %s\nINVARIANTS FIFO OneToken NoSendClosed RefusedLate DoneComplete OnlyDisposedLeaves\n%sCHECK_DEADLOCK FALSE\n"
                    % (n, skip, "" if skip == "TRUE" else "PROPERTIES AllRun Leaves\n"))
    cfg("FALSE")
    p = tlc("ConnQueue.tla", d, [], timeout=1800, workers=4)
    if "No error has been found" not in p.stdout:
        raise MachineryError("ConnQueue.tla does not satisfy its own properties (model bug):\n" + p.stdout[-2000:])
    g, dist = tlc_stats(p.stdout)
    cfg("TRUE")
    pn = tlc("ConnQueue.tla", d, [], timeout=900, workers=4)
    if "Invariant DoneComplete is violated" not in pn.stdout:
        raise MachineryError("ConnQueue.tla with SkipBehind = TRUE should violate DoneComplete (vacuous model):\n" + pn.stdout[-1500:])
    # unbounded: the counting abstraction with an inductive invariant (Apalache)
    from .common import apalache_inductive
    shutil.copy(os.path.join(SPEC, "ConnQueueInd.tla"), d)
    ind = apalache_inductive("ConnQueueInd.tla", d)
    # and the same invariant as a TLAPS proof (no bound at all, also on the integers Apalache samples)
    import re as _re
    from .common import run as _run
    pd = os.path.join(d, "proof")
    os.makedirs(pd, exist_ok=True)
    shutil.copy(os.path.join(SPEC, "ConnQueueProof.tla"), pd)
    pr0 = _run(["timeout", "900", "tlapm", "--threads", "8", "ConnQueueProof.tla"], cwd=pd, check=False)
    mm = _re.search(r"All (\d+) obligations? proved", pr0.stdout)
    if not mm:
        raise MachineryError("tlapm did not prove ConnQueueProof.tla:\n" + pr0.stdout[-1500:])
    cov = dict(states=dist, transitions=g, samples=[{"tlaps": "spec/ConnQueueProof.tla: THEOREM Spec => []Safety (one token, nothing sent on the closed channel, refusals only while disposing, the worker leaves only with everything accepted run) for any number of closures, %s proof obligations discharged by tlapm" % mm.group(1)},
                                                    {"inductive": "spec/ConnQueueInd.tla: Init => IndInv, IndInv /\\ Next => IndInv', IndInv => OneToken /\\ NoSendClosed /\\ RefusedLate /\\ DoneComplete /\\ OnlyDisposedLeaves - %d Apalache runs, any number of closures" % ind},
                                                    {"model": "spec/ConnQueue.tla MaxWork=%d: producers enqueue work and dispose closures at any time; invariants FIFO OneToken NoSendClosed RefusedLate DoneComplete OnlyDisposedLeaves, liveness AllRun Leaves; negative check: a worker that drops what is queued behind the dispose closure violates DoneComplete" % n}],
               rule="exhaustive TLC on ConnQueue.tla; the code is bound to it by the cq* notes (taken under the connection's mutex) replayed by ConnQueueTrace.tla inside the observer on every gateway trace, per connection object", exhaustive=False)
    return dict(coverage=cov, violations=[], level="model_checking", assumptions=[])


def subready_model(ctx):
    """Exhaustive TLC run of spec/SubReady.tla (readiness of a subscription tree: OnReady / onLoaded / collectRefs / Loaded / doneLoading)."""
    import os, shutil
    from .common import SPEC, tlc, tlc_stats, MachineryError
    d = os.path.join(ctx.workdir, "subready-mc")
    os.makedirs(d, exist_ok=True)
    for f in ("SubReadyOps.tla", "SubReady.tla"):
        shutil.copy(os.path.join(SPEC, f), d)
    # thorough: 150 more 4-resource graphs drawn with VERIF_SEED
    import random
    rng = random.Random(ctx.seed)
    more4 = ""
    if ctx.tier != "quick":
        seen = set()
        while len(seen) < 150:
            g = tuple(frozenset(x for x in "abcd" if rng.random() < 0.4) for _ in range(4))
            seen.add(g)
        for g in sorted(seen, key=lambda g: [sorted(x) for x in g]):
            more4 += ",\n            [" + ", ".join("%s |-> {%s}" % (n, ", ".join('"%s"' % x for x in sorted(k))) for n, k in zip("abcd", g)) + "]"
    with open(os.path.join(d, "MCSubReady.tla"), "w") as f:
        f.write('---- MODULE MCSubReady ----\nEXTENDS SubReady\nMCNodes3 == {"a", "b", "c"}\nMCAll3 == [MCNodes3 -> SUBSET MCNodes3]\n'
                'MCNodes4 == {"a", "b", "c", "d"}\n'
                'MCSome4 == {[a |-> {"b", "c"}, b |-> {"c", "a"}, c |-> {"d"}, d |-> {"b"}], [a |-> {"b", "c"}, b |-> {"d"}, c |-> {"d"}, d |-> {"a", "d"}],\n'
                '            [a |-> {"b"}, b |-> {"c"}, c |-> {"d"}, d |-> {"a"}], [a |-> {"b", "c", "d"}, b |-> {"d"}, c |-> {"d"}, d |-> {}]%s}\n====\n' % more4)
    def cfg(nodes, graphs, maxreq, fails, disp, live=True, unsend="FALSE", invs="FireOnce Complete Counted SentClosed"):
        with open(os.path.join(d, "MCSubReady.cfg"), "w") as f:
            f.write("SPECIFICATION Spec\nCONSTANTS\n Nodes <- %s\n Graphs <- %s\n MaxReq = %d\n Fails = %s\n WithDispose = %s\n WithUnsend = %s\n"
                    "INVARIANTS %s\n%sCHECK_DEADLOCK FALSE\n"
                    % (nodes, graphs, maxreq, fails, disp, unsend, invs, "PROPERTIES AllFire\n" if live else ""))
    runs = [("MCNodes3", "MCAll3", 2 if ctx.tier == "quick" else 3, '{"b", "c"}')]
    if ctx.tier != "quick":
        runs.append(("MCNodes4", "MCSome4", 3, '{"c", "d"}'))
    tg = td = 0
    for nodes, graphs, mr, fails in runs:
        cfg(nodes, graphs, mr, fails, "FALSE")
        p = tlc("MCSubReady.tla", d, [], timeout=1800, workers=8)
        if "No error has been found" not in p.stdout:
            raise MachineryError("SubReady.tla does not satisfy its own properties (model bug):\n" + p.stdout[-2000:])
        g, dist = tlc_stats(p.stdout)
        tg, td = tg + g, td + dist
    # negative check: a root disposed while callbacks are parked on it (finding KF-H) breaks the bookkeeping
    cfg("MCNodes3", "MCAll3", 2, '{"b", "c"}', "TRUE", live=False)
    pn = tlc("MCSubReady.tla", d, [], timeout=900, workers=8)
    if "Invariant Counted is violated" not in pn.stdout:
        raise MachineryError("SubReady.tla with WithDispose = TRUE should violate Counted (finding KF-H):\n" + pn.stdout[-1500:])
    # second negative check: the Unsend path (finding KF-U) lets a still loading reference be marked sent
    cfg("MCNodes3", "MCAll3", 3, '{"b", "c"}', "FALSE", live=False, unsend="TRUE", invs="FireOnce Complete")
    pu = tlc("MCSubReady.tla", d, [], timeout=900, workers=8)
    if "Invariant Complete is violated" not in pu.stdout:
        raise MachineryError("SubReady.tla with WithUnsend = TRUE should violate Complete (finding KF-U):\n" + pu.stdout[-1500:])
    cov = dict(states=td, transitions=tg, samples=[{"model": "spec/SubReady.tla: every reference graph over 3 resources (512 graphs, incl. self references and cycles)%s, OnReady calls from client requests and from references added by events, loads completing in any order, failing loads; invariants FireOnce Complete Counted SentClosed, liveness AllFire; negative checks: disposing a root with parked callbacks violates Counted (KF-H); marking a sent subscription unsent while it goes on processing events violates Complete (KF-U)" % ("" if ctx.tier == "quick" else " and 154 4-resource graphs (four fixed, 150 drawn with VERIF_SEED)")}],
               rule="exhaustive TLC on SubReady.tla; the code is bound to SubReadyOps by the rdy* / subRef / subSent notes replayed by SubReadyTrace.tla inside the observer on every gateway trace", exhaustive=False)
    return dict(coverage=cov, violations=[], level="model_checking", assumptions=[])


def directcount_model(ctx):
    """Exhaustive TLC run of spec/DirectCount.tla: the code-shaped variant must violate UnsubRule (finding KF-H), the repaired design must pass."""
    import os, shutil
    from .common import SPEC, tlc, tlc_stats, MachineryError
    d = os.path.join(ctx.workdir, "directcount-mc")
    os.makedirs(d, exist_ok=True)
    shutil.copy(os.path.join(SPEC, "DirectCount.tla"), d)
    lim, req = (3, 5) if ctx.tier == "quick" else (4, 8)
    def cfg(rep):
        with open(os.path.join(d, "DirectCount.cfg"), "w") as f:
            f.write("SPECIFICATION Spec\nCONSTANTS\n Limit = %d\n MaxReq = %d\n Repaired = %s\nINVARIANTS Exact UnsubRule LimitHeld\nCHECK_DEADLOCK FALSE\n" % (lim, req, rep))
    cfg("TRUE")
    p = tlc("DirectCount.tla", d, [], timeout=1800, workers=4)
    if "No error has been found" not in p.stdout:
        raise MachineryError("DirectCount.tla (Repaired) does not satisfy its own properties (model bug):\n" + p.stdout[-2000:])
    g, dist = tlc_stats(p.stdout)
    cfg("FALSE")
    p2 = tlc("DirectCount.tla", d, [], timeout=1800, workers=4)
    if "Invariant UnsubRule is violated" not in p2.stdout:
        raise MachineryError("DirectCount.tla with Repaired = FALSE should violate UnsubRule (finding KF-H):\n" + p2.stdout[-1500:])
    cov = dict(states=dist, transitions=g, samples=[{"model": "spec/DirectCount.tla Limit=%d MaxReq=%d: Repaired=TRUE satisfies Exact, UnsubRule, LimitHeld; Repaired=FALSE (the code: unsubscribe compared with a count that includes in-flight requests) violates UnsubRule - finding KF-H as a named deviation" % (lim, req)}],
               rule="exhaustive TLC on DirectCount.tla (design level); the code is judged by the observer's C08 rules on replayed schedules, with KF-H attributed by its signature", exhaustive=False)
    return dict(coverage=cov, violations=[], level="model_checking", assumptions=[])


PROPS["C11"] = dict(run=tables.combine(connqueue_model, gateway_run(["cache", "access", "win-evict", "thr-reset1"], ["close", "sockClosed"], also=("C09",))))

PROPS["C07"] = dict(run=tables.combine(subready_model, gateway_run(["gc", "access", "win-gc", "win-recheck", "thr-ref1", "ready"], ["cres"])))

PROPS["C08"] = dict(run=tables.combine(directcount_model, gateway_run(["gc", "cache", "access", "win-gc", "win-evict"], ["cres"])))

PROPS["C19"] = dict(run=tables.combine(throttle_model, gateway_run(["thr-ref1", "thr-ref2", "thr-reset1", "thr-reset2"], ["note", "mreq"])))
TEXT["C19"] = _t("spec/ThrottleProof.tla: tlapm proves that never more than Limit callbacks are outstanding, for every Limit and any number of callbacks; spec/ThrottleInd.tla: Apalache shows the full safety invariant inductive (bounded constants, any depth); spec/Throttle.tla is model-checked exhaustively (bound, saturation, FIFO hand-over, every added callback eventually starts under any answer order); the real Throttle is driven directly and every Add/Done validated against it; at system level the thrAdd/thrDone notes of replayed schedules with reset/reference throttles of 1 and 2 are checked against the same transition rules, the limit, and emptiness at quiescence (reset families include a query resource and unsubscribes while its re-fetch waits in the throttle).",
                 "TLAPS proof + Apalache inductive invariant + TLC exhaustive on Throttle.tla + trace validation of the real Throttle (ThrottleTrace.tla) + observer rules on gateway traces")

# on the life family the convergence predicate is part of C20: after a restart nothing may be served from the old cache
def lifecycle_model(ctx):
    """Exhaustive TLC run of spec/Lifecycle.tla (Start / Stop with concurrent callers and the MQ closed handler)."""
    import os, shutil
    from .common import SPEC, tlc, tlc_stats, MachineryError
    d = os.path.join(ctx.workdir, "lifecycle-mc")
    os.makedirs(d, exist_ok=True)
    shutil.copy(os.path.join(SPEC, "Lifecycle.tla"), d)
    def cfg(close_first):
        with open(os.path.join(d, "Lifecycle.cfg"), "w") as f:
            f.write('SPECIFICATION Spec\nCONSTANTS\n Callers = {"user", "mq", "user2"}\n MaxRuns = %d\n MaxConns = %d\n MaxBuf = 2\n CloseFirst = %s\n'
                    'INVARIANTS OneCause ClosedAfter NoAcceptWhileStopping OneStopper NoCrash QuietAfter\n%sCHECK_DEADLOCK FALSE\n'
                    % (((3, 2) if ctx.tier == "quick" else (5, 4)) + (("TRUE", "PROPERTIES Terminates\n") if close_first else ("FALSE", ""))))
    cfg(True)
    p = tlc("Lifecycle.tla", d, [], timeout=900, workers=4)
    if "No error has been found" not in p.stdout:
        raise MachineryError("Lifecycle.tla does not satisfy its own properties (model bug):\n" + p.stdout[-2000:])
    # negative check: with the cache stopped before the client is closed the model must reach a crash
    cfg(False)
    pn = tlc("Lifecycle.tla", d, [], timeout=900, workers=4)
    if "Invariant NoCrash is violated" not in pn.stdout:
        raise MachineryError("Lifecycle.tla: stopping the cache before closing the client does not violate NoCrash (vacuous model):\n" + pn.stdout[-1500:])
    g, dist = tlc_stats(p.stdout)
    cov = dict(states=dist, transitions=g, samples=[{"model": "spec/Lifecycle.tla three Stop callers (user, user2, MQ closed handler); invariants OneCause ClosedAfter NoAcceptWhileStopping OneStopper NoCrash QuietAfter; liveness Terminates; messaging client with a receive buffer drained by Close before the cache's work channel is closed; negative check: the swapped order violates NoCrash"}],
               rule="exhaustive TLC on Lifecycle.tla; its invariants are the observer's stop rules (cause on the stop channel = cause of the winning Stop, every socket closed, nothing accepted while stopped) evaluated on the life family's traces", exhaustive=False)
    return dict(coverage=cov, violations=[], level="model_checking", assumptions=["closing client sockets and the MQ client completes within their bounded timeouts"])


PROPS["C20"] = dict(run=tables.combine(lifecycle_model, gateway_run(["life"], ["stop", "stopped", "sockClosed", "openRefused"], also=("C01",)),
                                       tables.tables_run(["lifehttp"], "Start / Stop with the real HTTP listener")))
TEXT["C20"] = _t("spec/Lifecycle.tla (Start / Stop critical sections with three concurrent Stop callers incl. the MQ closed handler) is model-checked exhaustively: one cause per run on the stop channel and it is the winner's, no socket open and nothing accepted after a run ended, a winning Stop terminates, and - with a messaging client whose Close hands over what it still holds in its receive buffer - nothing is ever handed to the cache's closed work channel (the swapped order is a negative check). On the real gateway: Stop and loss of the messaging connection are injected at arbitrary steps of TLC-generated schedules (with requests, loads and evictions outstanding, gates held, and optionally an event and / or a response delivered by the harness messaging client during Close, as the NATS adapter does); the observer requires every socket closed, the cause on the stop channel, completion within the fake-time bounds, refusal while stopped, a working restart, and no panic. Table lifehttp (real time, real loopback listeners, with and without the metrics endpoint): Stop followed at once by Start - the new run serves and is stopped by nothing of the old one - and a listener that cannot be opened - fail-stop with the cause, messaging client closed, a later Start works.",
                 "TLC exhaustive on Lifecycle.tla + TLC-generated stop / connection-loss schedules replayed on the real gateway, traces validated by the observer spec")

# C11 / C09: what the temporary connection of an HTTP request leaves behind, whatever the outcome of the request
PROPS["C11"] = dict(run=tables.combine(PROPS["C11"]["run"], tables.tables_run(["httpconn"], "HTTP temporary connection")))
PROPS["C09"] = dict(run=tables.combine(PROPS["C09"]["run"], tables.tables_run(["httpconn"], "HTTP temporary connection")))
# C10: the token carried by the requests of an HTTP call while the service changes it
PROPS["C10"] = dict(run=tables.combine(PROPS["C10"]["run"], tables.tables_run(["httptoken"], "HTTP call token")))
# C04: what an access response grants is a function table of its own (an error response is never a grant)
PROPS["C04"] = dict(run=tables.combine(PROPS["C04"]["run"], tables.tables_run(["access", "httpaccess"], "access verdict")))

# C15: which value objects are rejected ("ambiguous or unknown value objects") is a function table of its own
PROPS["C15"] = dict(run=tables.combine(PROPS["C15"]["run"], tables.tables_run(["values"], "value decoding")))

PROPS["C14"] = dict(run=tables.combine(tables.tables_run(["subjects"], "subject hygiene"),
                                       gateway_run(["access", "gc"], ["mreq", "msub"])))
TEXT["C14"] = _t("Every WebSocket method string (six request types) and HTTP GET / POST / HEAD / mapped PUT, DELETE, PATCH path over a 12/13-symbol alphabet (wildcards, whitespace, control characters, CR LF, DEL, non-ASCII, invalid UTF-8, percent-encodings of each, {cid}) up to length 3 (thorough 4) is sent to the real gateway; TLC checks the recorded subjects and responses against spec/fn/ResSubject.tla (valid => exactly the expected subjects, invalid => invalidRequest/404 and no traffic) and domain completeness. The observer additionally flags any malformed subject in every replayed schedule.",
                 "exhaustive input table through the real WS/HTTP handlers checked by TLC against spec/fn/ResSubject.tla; malformed-subject rule of the observer on all gateway traces",
                 note="Symbol alphabet, not all byte strings; inputs that Go's HTTP request parser rejects before the handler are outside the table. " + GW_NOTE)

PROPS["C17"] = dict(run=tables.tables_run(["httpstatus", "origin", "wsupgrade"], "HTTP status / meta / CORS"))
TEXT["C17"] = _t("Tables through the real Service.ServeHTTP: every predefined error code and custom ones on access / get / call; meta status values {-1,0,100,200,299,300..599 samples,600,1000} on header-auth, access and call responses with ok and error bases (status and the sequence of service requests after it); header names in three letter cases incl. the protected ones, Set-Cookie accumulation over auth+call meta (every supplied value exactly once, in order, also together with a direct-response status and with two spellings of the name in one meta object), direct-response variants; Origin strings against an allow-list for GET, POST, OPTIONS with and without header authentication. matchesOrigins is additionally enumerated exhaustively over all origins <= 3 (4) symbols of an 11-symbol alphabet (ASCII and non-ASCII case pairs, Kelvin sign, two invalid bytes, U+FFFD) for all single and sampled double allow-lists. TLC checks every row against spec/fn/HttpStatus.tla and Origin.tla.",
                 "function tables through the real HTTP handler and matchesOrigins, checked by TLC against spec/fn/HttpStatus.tla and spec/fn/Origin.tla",
                 note="WebSocket upgrades (origin refusal before any service request, wsHeaderAuth meta status and headers with the handshake's own Sec-WebSocket-* / Upgrade values intact) are rows of table wsupgrade. Bounded alphabets.")
import json as _json

PROPS["C16"] = dict(run=tables.tables_run(["render", "httppost"], "HTTP rendering"))
TEXT["C16"] = _t("GET through the real Service.ServeHTTP for every resource graph of a bounded family (root: all models with two keys - one needing JSON escaping - and collections; plus models at the root and one level down whose keys are control characters, DEL, the JSON short escapes, backslash, quote, slash, <&>, non-ASCII, U+2028, non-BMP and noncharacter code points, the empty string up to two long over {primitive, data value, soft reference, reference to each of three resources}; second level models/collections/error; third level models incl. a back reference, or error), for both API encodings: the body must be well-formed JSON whose tree equals spec/fn/HttpRender.tla's recursive expansion (path-based cycle cut, soft references and cycles as href only, data unwrapped, errors in place). POST verbatim / 204 for null / Location for resource responses, HEAD = GET status and headers.",
                 "exhaustive graph table through the real HTTP handler checked by TLC against spec/fn/HttpRender.tla",
                 note="Three resources, fixed apiPath /api/; graph cases use two keys (one with a quote); 17 further key strings are tried in fixed positions. Values needing escapes beyond the data value are not covered.")


def nats_model(ctx):
    import os, shutil
    from .common import SPEC, tlc, tlc_stats, MachineryError
    d = os.path.join(ctx.workdir, "nats-mc")
    os.makedirs(d, exist_ok=True)
    shutil.copy(os.path.join(SPEC, "NatsAdapter.tla"), d)
    with open(os.path.join(d, "NatsAdapter.cfg"), "w") as f:
        f.write("SPECIFICATION Spec\nCONSTANTS MaxMsgs = %d\nINVARIANTS AtMostOnce PendIffNone NoTimerAfterDone CanComplete\nPROPERTIES ExactlyOnce\nCHECK_DEADLOCK FALSE\n" % (4 if ctx.tier == "quick" else 6))
    p = tlc("NatsAdapter.tla", d, [], timeout=900, workers=4)
    if "No error has been found" not in p.stdout:
        raise MachineryError("NatsAdapter.tla does not satisfy its own properties (model bug):\n" + p.stdout[-2000:])
    g, dist = tlc_stats(p.stdout)
    cov = dict(states=dist, transitions=g, traces_validated_against_impl=0, evaluations=1, distinct_nontrivial=dist,
               samples=[{"model": "spec/NatsAdapter.tla: AtMostOnce, PendIffNone, CanComplete, ExactlyOnce under weak fairness"}],
               rule="exhaustive TLC on the per-request state machine of the adapter", exhaustive=True)
    return dict(coverage=cov, violations=[], level="model_checking", assumptions=[])


PROPS["C18"] = dict(run=tables.combine(nats_model, tables.tables_run(["adapter"], "NATS adapter")))
TEXT["C18"] = _t("spec/NatsAdapter.tla (listener take vs timeout take under the client lock, pre-responses restarting a still-stoppable timer) is model-checked exhaustively: at most one completion, exactly one eventually. The real nats.Client is run against an in-process NATS text-protocol server (harness/natsx) with scripted reply behaviours (none, one, two, late, racing the deadline, pre-response then reply or silence, malformed pre-response, 503 no-responders), 60 concurrent requests per round, event messages with an Unsubscribe, a server disconnect, and a sweep of subject / namespace lengths across the control-line limit with the real server's acceptance rule; TLC checks every recorded completion list against the contract.",
                 "TLC exhaustive on NatsAdapter.tla + recorded completions of the real adapter against an in-process NATS server checked by TLC (spec/fn/AdapterCheck.tla)",
                 note="Real time with 60 ms timeouts; replies within 25 ms of a deadline may complete either way. The mini server implements only what the adapter uses (INFO/CONNECT/PING/SUB/UNSUB/PUB/MSG/HMSG) and the real server's control-line rule (argument length > 4096 closes the connection, taken from nats-server v2.6.6 parser.go).")
