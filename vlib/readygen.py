"""Family "ready": behaviours of spec/SubReady.tla (simulated by TLC through spec/SubReadyGen.tla) turned into schedules
for the real gateway: the component model drives the code, the recorded trace is validated like any other."""
import json
import os
import random
import shutil

from .common import SPEC, MachineryError, tlc, tlc_stats
from .families import parse_sim_file

NODES = ["a", "b", "c", "d"]


def _graphs(sd, n):
    rng = random.Random(sd * 7919 + 11)
    out = set()
    # a few shapes that matter on their own: cycle, diamond, self reference, chain
    fixed = [("b", "c", "d", "a"), ("bc", "d", "d", ""), ("a", "", "", ""), ("b", "c", "d", ""), ("bcd", "acd", "abd", "abc")]
    for f in fixed:
        out.add(tuple(frozenset(x) for x in f))
    while len(out) < n:
        out.add(tuple(frozenset(x for x in NODES if rng.random() < 0.35) for _ in NODES))
    return sorted(out, key=lambda g: [sorted(x) for x in g])


def generate(n, sd, workdir):
    d = os.path.join(workdir, "env-ready")
    os.makedirs(os.path.join(d, "sim"), exist_ok=True)
    for f in ("SubReadyOps.tla", "SubReady.tla", "SubReadyGen.tla"):
        shutil.copy(os.path.join(SPEC, f), d)
    gs = _graphs(sd, max(8, n // 4))
    gtxt = ",\n  ".join("[" + ", ".join("%s |-> {%s}" % (x, ", ".join('"%s"' % y for y in sorted(k))) for x, k in zip(NODES, g)) + "]" for g in gs)
    with open(os.path.join(d, "MCGen.tla"), "w") as fh:
        fh.write('---- MODULE MCGen ----\nEXTENDS SubReadyGen\nGNodes == {"a", "b", "c", "d"}\nGGraphs == {\n  %s}\n====\n' % gtxt)
    with open(os.path.join(d, "MCGen.cfg"), "w") as fh:
        fh.write('SPECIFICATION GSpec\nCONSTANTS\n Nodes <- GNodes\n Graphs <- GGraphs\n MaxReq = 4\n Fails = {"c", "d"}\n WithDispose = FALSE\n WithUnsend = FALSE\n')
    p = tlc("MCGen.tla", d, ["-deadlock", "-simulate", "file=sim/b,num=%d" % n, "-depth", "14", "-seed", str(sd)], timeout=600)
    if "Error" in p.stdout and "traces generated" not in p.stdout:
        raise MachineryError("TLC simulation of SubReadyGen failed:\n" + p.stdout[-3000:])
    gen, _ = tlc_stats(p.stdout)
    scheds = []
    files = sorted(os.listdir(os.path.join(d, "sim")), key=lambda x: int(x.split("_")[-1]))
    for i, fn in enumerate(files):
        hist = parse_sim_file(os.path.join(d, "sim", fn))
        if not hist or hist[0].get("op") != "graph":
            continue
        g = hist[0]["g"]
        res = {}
        for x in NODES:
            m = {"z": {"t": "p", "v": "1"}}
            for c in g.get(x, []):
                m["k" + c] = {"t": "r", "v": c}
            res[x] = {"k": "m", "m": m}
        steps = [{"op": "open", "c": "c1", "ver": "latest"}]
        for st in hist[1:]:
            if st["op"] == "req":
                steps += [{"op": "send", "c": "c1", "m": "subscribe", "rid": st["n"], "settle": True},
                          {"op": "reply", "t": "access", "n": st["n"], "settle": True}]
            elif st["op"] == "load":
                steps.append({"op": "reply", "t": "get", "n": st["n"], "out": "ok" if st["ok"] else "notFound", "settle": True})
            elif st["op"] == "add":
                steps.append({"op": "event", "n": st["p"], "ev": "change", "k": "e" + st["c"], "val": {"t": "r", "v": st["c"]}, "settle": True})
        steps += [{"op": "quiescent"}, {"op": "event", "n": "a", "ev": "custom"}, {"op": "quiescent"}, {"op": "final"}]
        scheds.append({"id": "ready-s%d-%d" % (sd, i), "cfg": {"family": "ready", "resources": res}, "steps": steps})
    shutil.rmtree(d, ignore_errors=True)
    if len(scheds) < n // 2:
        raise MachineryError("TLC produced only %d of %d behaviours of SubReadyGen:\n%s" % (len(scheds), n, p.stdout[-2000:]))
    return scheds, gen
