"""Function tables: the real code enumerated over a bounded input domain, checked by TLC against
the definitional TLA+ modules in spec/fn."""
import json
import os
import shutil

from .common import GO, GOENV, HARNESS, REPO, SPEC, MachineryError, Timer, run, tlc, log

# table name -> (go test, check module, env per tier)
TABLES = {
    "pattern": dict(test="TestTablePattern", module="PatternCheck", env={"quick": {"VERIF_PATTERN_LEN": "4"}, "thorough": {"VERIF_PATTERN_LEN": "5"}}),
    "calllist": dict(test="TestTableCallList", module="CallListCheck", env={"quick": {"VERIF_CALL_LEN": "5"}, "thorough": {"VERIF_CALL_LEN": "6"}}),
    "coldiff": dict(test="TestTableCollectionDiff", module="CollDiffCheck", env={"quick": {"VERIF_DIFF_LEN": "3"}, "thorough": {"VERIF_DIFF_LEN": "4"}}),
    "gc": dict(test="TestTableGC", module="GCCheck", env={"quick": {"VERIF_GC_NODES": "3"}, "thorough": {"VERIF_GC_NODES": "3", "VERIF_GC_SAMPLE4": "1500"}}),
    "subjects": dict(test="TestTableSubjects", module="SubjectCheck", pkg="gw", env={"quick": {"VERIF_SUBJ_LEN": "3"}, "thorough": {"VERIF_SUBJ_LEN": "4"}}),
    "callsubject": dict(test="TestTableSubjects", out="subjects", module="CallSubjectCheck", pkg="gw", env={"quick": {"VERIF_SUBJ_LEN": "3"}, "thorough": {"VERIF_SUBJ_LEN": "4"}}),
    "origin": dict(test="TestTableOrigin", module="OriginCheck", pkg="gw", env={"quick": {"VERIF_ORIGIN_LEN": "3"}, "thorough": {"VERIF_ORIGIN_LEN": "3", "VERIF_ORIGIN_EXT": "1"}}),
    "httpstatus": dict(test="TestTableHTTPStatus", module="HttpStatusCheck", pkg="gw", env={}),
    "render": dict(test="TestTableRender", module="RenderCheck", pkg="gw", env={"quick": {"VERIF_RENDER_FULL": "0"}, "thorough": {"VERIF_RENDER_FULL": "1"}}),
    "wsupgrade": dict(test="TestTableWSUpgrade", module="WSUpgradeCheck", pkg="gw", env={}),
    "httppost": dict(test="TestTablePost", module="PostCheck", pkg="gw", env={}),
    "adapter": dict(test="TestTraceAdapter", module="AdapterCheck", pkg="natsx", env={"quick": {"VERIF_NATS_ROUNDS": "3"}, "thorough": {"VERIF_NATS_ROUNDS": "25"}}),
    "lifehttp": dict(test="TestTableLifeHTTP", module="LifeHTTPCheck", pkg="gw", env={"quick": {"VERIF_LIFEHTTP_ROUNDS": "5"}, "thorough": {"VERIF_LIFEHTTP_ROUNDS": "40"}}),
    "access": dict(test="TestTableAccess", module="AccessCheck", env={}),
    "httpconn": dict(test="TestTableHTTPConn", module="HttpConnCheck", pkg="gw", env={}),
    "httptoken": dict(test="TestTableHTTPToken", module="HttpTokenCheck", pkg="gw", env={}),
    "httpaccess": dict(test="TestTableHTTPAccess", module="HttpAccessCheck", pkg="gw", env={}),
    "values": dict(test="TestTableValues", module="ValueCheck", env={}),
    "modeldiff": dict(test="TestTableModelDiff", module="ModelDiffCheck", env={"quick": {"VERIF_DIFF_KEYS": "2"}, "thorough": {"VERIF_DIFF_KEYS": "3"}}),
}


def build_fn(workdir, pkg="fn"):
    shutil.copy(os.path.join(REPO, "go.sum"), os.path.join(HARNESS, "go.sum"))
    binp = os.path.join(workdir, pkg + ".test")
    if not os.path.exists(binp):
        run([GO, "test", "-c", "-tags", "verif", "-o", binp, "./" + pkg], cwd=HARNESS, timeout=600)
    return binp


def run_table(name, tier, workdir):
    """Returns dict(rows, bad=[...], complete, wall_s, samples)."""
    t = Timer()
    spec = TABLES[name]
    binp = build_fn(workdir, spec.get("pkg", "fn"))
    d = os.path.join(workdir, "tab-" + name)
    os.makedirs(d, exist_ok=True)
    env = dict(GOENV, VERIF_OUT=d, **spec["env"].get(tier, {}))
    p = run([binp, "-test.run", "^%s$" % spec["test"], "-test.timeout", "30m"], cwd=d, env=env, check=False, timeout=3000)
    tab = os.path.join(d, spec.get("out", name) + ".ndjson")
    if p.returncode != 0 or not os.path.exists(tab):
        # a crash of the real function on some input is itself a finding of the table
        return dict(rows=0, bad=[{"row": 0, "rec": {"crash": p.stdout[-1500:]}}], complete=False, wall_s=t.s(), samples=[], crashed=True)
    for f in os.listdir(os.path.join(SPEC, "fn")):
        if f.endswith(".tla"):
            shutil.copy(os.path.join(SPEC, "fn", f), d)
    os.replace(tab, os.path.join(d, "table.ndjson"))
    mod = spec["module"]
    with open(os.path.join(d, mod + ".cfg"), "w") as f:
        f.write("\n")
    res = os.path.join(d, "result.json")
    if os.path.exists(res):
        os.remove(res)
    tp = tlc(mod + ".tla", d, [], timeout=3000, java_opts="-Xss512m")
    if not os.path.exists(res) or "Error:" in tp.stdout:
        raise MachineryError("table check %s failed to evaluate:\n%s" % (name, tp.stdout[-3000:]))
    r = json.load(open(res))[0]
    samples = []
    with open(os.path.join(d, "table.ndjson")) as f:
        for i, ln in enumerate(f):
            if i in (1, 7, 200):
                samples.append(json.loads(ln))
    shutil.rmtree(d, ignore_errors=True)
    return dict(rows=r["rows"], bad=r["bad"], complete=r["complete"], wall_s=t.s(), samples=samples,
                drift=r.get("drift", 0), driftsample=r.get("driftsample", []), known=r.get("known", 0))


def tables_run(names, pid_text):
    def runner(ctx):
        viols, cov_t, rows, samples = [], {}, 0, []
        complete = True
        for n in names:
            r = run_table(n, ctx.tier, ctx.workdir)
            rows += r["rows"]
            complete = complete and r["complete"]
            cov_t[n] = dict(rows=r["rows"], bad=len(r["bad"]), complete=r["complete"], wall_s=r["wall_s"],
                            conformance_drift=r.get("drift", 0), known_finding_rows=r.get("known", 0))
            if r.get("drift", 0) and not r["bad"]:
                print("CONFORMANCE-DRIFT table=%s rows=%d (the real code no longer follows the transcribed algorithm; the property predicate still holds)" % (n, r["drift"]))
            if r.get("known", 0):
                viols.append(dict(p=ctx.pid, why="%d table rows on which the collector algorithm itself breaks retention" % r["known"], kf="KF-U", table=n, confirmed=True))
            samples += [dict(table=n, row=s) for s in r["samples"][:2]]
            for b in r["bad"][:20]:
                viols.append(dict(p=ctx.pid, why="%s: table %s row %s: the real function disagrees with spec/fn: %s"
                                  % (pid_text, n, b["row"], json.dumps(b["rec"])[:600]), kf="", table=n, rec=b["rec"], confirmed=True))
            if not r["complete"] and not r["bad"]:
                raise MachineryError("table %s does not cover its declared domain" % n)
        cov = dict(states=max(1, rows), transitions=max(1, rows), traces_validated_against_impl=rows,
                   samples=samples or [{"note": "empty"}], evaluations=rows, distinct_nontrivial=rows,
                   rule="every input of the bounded domain is run through the real function; TLC evaluates the definitional TLA+ operator on every recorded row and checks domain completeness; states = rows checked",
                   tables=cov_t, exhaustive=complete)
        return dict(coverage=cov, violations=viols, level="model_checking",
                    assumptions=["bounded alphabets / lengths as stated in the table header", "harness symbol-to-byte mapping"])
    return runner


def combine(*runners):
    """A property decided by several engines: violations are concatenated, coverage merged."""
    def runner(ctx):
        out = None
        for r in runners:
            x = r(ctx)
            if out is None:
                out = x
                continue
            out["violations"] += x["violations"]
            c, d = out["coverage"], x["coverage"]
            for k in ("states", "transitions", "traces_validated_against_impl", "evaluations", "distinct_nontrivial"):
                c[k] = c.get(k, 0) + d.get(k, 0)
            c["samples"] = (c.get("samples") or []) + (d.get("samples") or [])
            c["rule"] = c.get("rule", "") + " || " + d.get("rule", "")
            for k, v in d.items():
                if k not in c:
                    c[k] = v
            c["exhaustive"] = False
            out["assumptions"] = out.get("assumptions", []) + x.get("assumptions", [])
        return out
    return runner
