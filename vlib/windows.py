"""Window scenarios: bounded-exhaustive orderings of a pool of steps after a prologue that
opens a window in the gateway (spec/ResWindow.tla enumerates them)."""
import os
import random
import re
import shutil

from .common import SPEC, MachineryError, tlc, tlc_stats
from .families import P, R, S, D, X, M, C, NF, tla


def opn(c, ver="latest"):
    return {"op": "open", "c": c, "ver": ver}


def send(c, m, rid, **kw):
    return dict({"op": "send", "c": c, "m": m, "rid": rid, "settle": True}, **kw)


def ev(n, e, **kw):
    return dict({"op": "event", "n": n, "ev": e, "settle": True}, **kw)


def reply(t, out="ok", n="", **kw):
    return dict({"op": "reply", "t": t, "out": out, "n": n, "settle": True}, **kw)


def tok(c, t, tid="tid1"):
    return {"op": "token", "c": c, "tok": t, "tid": tid, "settle": True}


def reset(res=(), acc=()):
    return {"op": "reset", "res": list(res), "acc": list(acc), "settle": True}


def mut(n, a=0, k="", val=None):
    return {"op": "mutate", "n": n, "a": a, "k": k, "val": val}


Q = {"op": "quiescent"}

WINDOWS = {
    # a reference is being loaded while events, triggers and requests arrive
    "win-load": dict(
        cfg=dict(family="win-load", resources={
            "a": M(x=P("1"), r1=R("b")), "b": C(P('"q"'), R("c")), "c": M(z=P("1")), "d": M(w=P("0"))}),
        prologue=[opn("c1"), tok("c1", '"t1"'), send("c1", "subscribe", "b"), Q],
        pool=[ev("b", "add", a=0, val=R("d")), ev("b", "custom"), ev("b", "custom"), ev("b", "remove", a=0),
              ev("b", "reaccess"), tok("c1", '"t2"'), reset(acc=["b"]), reset(res=["b"]),
              reply("get", n="d"), reply("access", "ok"), reply("access", "deny"),
              send("c1", "unsubscribe", "b"), send("c1", "subscribe", "b"), ev("d", "custom"),
              ev("b", "add", a=1, val=P("7")), ev("c", "change", k="z", val=P("2")), mut("b", a=0, val=P("9"))],
        pre={i: [1] for i in range(2, 18)}, reuse=[10], K=5),
    # an access re-check is pending while further triggers, events and requests arrive
    "win-recheck": dict(
        cfg=dict(family="win-recheck", resources={"a": M(x=P("1"), r1=R("b")), "b": M(y=P("1"))}),
        prologue=[opn("c1"), tok("c1", '"t1"'), send("c1", "subscribe", "a"), Q],
        pool=[tok("c1", '"t2"'), tok("c1", '"t3"'), ev("a", "reaccess"), ev("b", "reaccess"), reset(acc=["a"]), reset(acc=[">"]),
              ev("a", "custom"), ev("a", "change", k="x", val=P("2")), ev("b", "custom"),
              reply("access", "ok"), reply("access", "deny"), reply("access", "timeout"),
              send("c1", "call", "a", action="a"), send("c1", "subscribe", "a"), send("c1", "unsubscribe", "a"),
              send("c1", "subscribe", "b"), send("c1", "get", "b"), reply("call", "ok"), ev("a", "change", k="r1", val=P("0"))],
        pre={}, reuse=[10], K=5),
    # a resource held only indirectly with a cached verdict, then triggers and new requests
    "win-indirect": dict(
        cfg=dict(family="win-indirect", resources={"a": M(x=P("1"), r1=R("b")), "b": M(y=P("1"))}),
        prologue=[opn("c1"), opn("c2"), tok("c1", '"t1"'), tok("c2", '"u1"', "tid2"), send("c1", "subscribe", "b"), Q, send("c1", "subscribe", "a"), Q,
                  send("c1", "unsubscribe", "b"), Q],
        pool=[tok("c1", '"t2"'), tok("c1", '"t3"', ""), ev("b", "reaccess"), reset(acc=["b"]), reply("access", "ok"), reply("access", "deny"),
              send("c1", "subscribe", "b"), send("c1", "get", "b"), send("c1", "call", "b", action="a"), ev("b", "custom"),
              send("c1", "unsubscribe", "a"), {"op": "tokenreset", "tids": ["tid1"], "settle": True},
              {"op": "tokenreset", "tids": ["tid2"], "settle": True}, reply("auth", "ok"), send("c2", "subscribe", "b")],
        pre={}, reuse=[5], K=4),
    # a query event is being handled (query requests unanswered)
    "win-query": dict(
        cfg=dict(family="win-query", resources={
            "q?n=1": C(P("1"), P("2")), "q?n=2": C(P("3")), "q": C(P("0"))},
            qnorm={"q?a=1": "n=1", "q?b=1": "n=1", "q?n=1": "n=1", "q?c=2": "n=2", "q?n=2": "n=2"}),
        prologue=[opn("c1"), opn("c2"), send("c1", "subscribe", "q?a=1"), send("c1", "subscribe", "q?c=2"), Q,
                  mut("q?n=1", a=0, val=P("8")), mut("q?n=2", a=0, val=P("6")), ev("q", "query")],
        pool=[reply("query", "full"), reply("query", "events"), reply("query", "err"), reply("query", "notFound"),
              reply("query", "timeout", pick=1), reply("query", "full", pick=1),
              send("c2", "subscribe", "q?b=1"), send("c2", "subscribe", "q?n=2"), reply("get", "ok"), reply("access", "ok"),
              mut("q?n=1", a=1, val=X), ev("q", "query"), reset(res=["q"]), ev("q", "custom"),
              send("c1", "unsubscribe", "q?a=1"), send("c2", "subscribe", "q")],
        pre={}, reuse=[1, 9, 10], K=4),
    # aliasing queries on a query resource that has already applied events
    "win-alias": dict(
        cfg=dict(family="win-alias", resources={
            "q?n=1": C(P("1"), P("2")), "m?n=1": M(x=P("1"))},
            qnorm={"q?a=1": "n=1", "q?b=1": "n=1", "q?n=1": "n=1", "m?a=1": "n=1", "m?b=1": "n=1", "m?n=1": "n=1"}),
        prologue=[opn("c1"), opn("c2"), send("c1", "subscribe", "q?a=1"), send("c1", "subscribe", "m?a=1"), Q,
                  mut("q?n=1", a=0, val=P("8")), mut("m?n=1", k="x", val=P("2")), ev("q", "query"), ev("m", "query"), Q],
        pool=[send("c2", "subscribe", "q?b=1"), send("c2", "subscribe", "m?b=1"), send("c2", "subscribe", "q?n=1"),
              send("c1", "subscribe", "q?b=1"), reply("get", "ok"), reply("access", "ok"),
              mut("q?n=1", a=0, val=P("7")), mut("m?n=1", k="y", val=P("3")), ev("q", "query"), ev("m", "query"),
              reply("query", "full"), reply("query", "events"), send("c1", "unsubscribe", "q?a=1"), reset(res=["*"])],
        pre={}, reuse=[5, 6, 11], K=5),
    # last users leaving, eviction delay, delete events, disconnects
    "win-evict": dict(
        cfg=dict(family="win-evict", resources={"a": M(x=P("1"), r1=R("b")), "b": M(y=P("1"))}),
        prologue=[opn("c1"), opn("c2"), send("c1", "subscribe", "a"), send("c2", "subscribe", "a"), Q],
        pool=[send("c1", "unsubscribe", "a"), send("c2", "unsubscribe", "a"), {"op": "close", "c": "c1", "settle": True},
              {"op": "close", "c": "c2", "settle": True}, ev("a", "delete"), ev("b", "delete"),
              {"op": "time", "ms": 6000}, {"op": "int", "t": "evict"}, send("c1", "subscribe", "a"), send("c2", "get", "b"),
              send("c1", "call", "a", action="a"), reply("access", "ok"), reply("get", "ok"), reply("get", "notFound"),
              {"op": "int", "t": "conn"}, {"op": "int", "t": "cache"},
              {"op": "send", "c": "c2", "m": "subscribe", "rid": "b"}, reply("call", "ok")],
        pre={}, reuse=[7, 8, 12, 13, 15, 16], K=5),
    # a system reset while the initial get of the resource is still outstanding: answers in either order, events, a second reset
    "win-reset1": dict(
        cfg=dict(family="win-reset1", resources={"a": M(x=P("1"), r1=R("b")), "b": M(y=P("1"))}),
        prologue=[opn("c1"), opn("c2"), send("c1", "subscribe", "a")],
        pool=[reset(res=["a"]), reply("get", "ok", n="a", pick=0), reply("get", "ok", n="a", pick=1), reply("get", "timeout", n="a", pick=1),
              reply("get", "notFound", n="a", pick=1), reply("get", "err", n="a", pick=0), reply("access", "ok"),
              ev("a", "change", k="x", val=P("2")), ev("a", "custom"), mut("a", k="x", val=P("5")), send("c2", "subscribe", "a"),
              reset(res=[">"]), ev("a", "change", k="x", val=P("3")), reply("get", "ok", n="b")],
        pre={}, reuse=[1, 2, 8, 9], K=5),
    # the same with the resource loaded and held: failed re-fetches (timeout, error, not found), events meanwhile, another reset
    "win-reset2": dict(
        cfg=dict(family="win-reset2", resources={"a": M(x=P("1"), r1=R("b")), "b": M(y=P("1"))}),
        prologue=[opn("c1"), opn("c2"), send("c1", "subscribe", "a"), Q, mut("a", k="x", val=P("4"))],
        pool=[reset(res=["a"]), reply("get", "ok", n="a"), reply("get", "timeout", n="a"), reply("get", "err", n="a"),
              reply("get", "notFound", n="a"), ev("a", "change", k="x", val=P("2")), ev("a", "custom"), mut("a", k="x", val=P("5")),
              send("c2", "subscribe", "a"), reset(res=[">"]), ev("a", "change", k="x", val=P("3")), reply("access", "ok"),
              send("c1", "unsubscribe", "a"), reset(res=["b"])],
        pre={}, reuse=[1, 2, 6, 7], K=5),
    # reference graph changes around subscribe / unsubscribe
    "win-gc": dict(
        cfg=dict(family="win-gc", resources={
            "a": M(r1=R("b"), r2=R("c")), "b": M(r1=R("c")), "c": C(R("d")), "d": M(r1=R("a"), z=P("1")), "e": NF,
            "f": M(self=R("f"))}),
        prologue=[opn("c1"), send("c1", "subscribe", "a"), Q],
        pool=[ev("a", "change", k="r1", val=P("0")), ev("a", "change", k="r2", val=R("d")), ev("b", "change", k="r1", val=R("f")),
              ev("c", "remove", a=0), ev("c", "add", a=0, val=R("e")), ev("d", "change", k="r1", val=R("f")),
              send("c1", "subscribe", "c"), send("c1", "subscribe", "d"), send("c1", "unsubscribe", "a"),
              send("c1", "unsubscribe", "c"), send("c1", "get", "b"), reply("get", "ok"), reply("access", "ok"),
              reply("get", "notFound"), ev("f", "change", k="self", val=P("0")), ev("c", "add", a=0, val=R("f")),
              ev("d", "custom"), ev("c", "custom")],
        pre={}, reuse=[12, 13], K=5),
}


def enumerate_window(name, workdir):
    """All leaves (index sequences of length K) of the window's selection tree, from TLC."""
    w = WINDOWS[name]
    d = os.path.join(workdir, "win-" + name)
    os.makedirs(d, exist_ok=True)
    shutil.copy(os.path.join(SPEC, "ResWindow.tla"), d)
    n = len(w["pool"])
    pre = "<<" + ", ".join("{" + ", ".join(str(x) for x in w["pre"].get(i, [])) + "}" for i in range(1, n + 1)) + ">>"
    with open(os.path.join(d, "MCWin.tla"), "w") as f:
        f.write("---- MODULE MCWin ----\nEXTENDS ResWindow\ncN == %d\ncK == %d\ncReuse == {%s}\ncPre == %s\n====\n"
                % (n, w["K"], ", ".join(str(x) for x in w["reuse"]), pre))
    with open(os.path.join(d, "MCWin.cfg"), "w") as f:
        f.write("SPECIFICATION Spec\nCONSTANTS\n N <- cN\n K <- cK\n Reuse <- cReuse\n Pre <- cPre\nCHECK_DEADLOCK FALSE\n")
    p = tlc("MCWin.tla", d, ["-dump", "states"], timeout=900, workers=4)
    gen, distinct = tlc_stats(p.stdout)
    dump = os.path.join(d, "states.dump")
    if not os.path.exists(dump):
        raise MachineryError("TLC did not dump the window states:\n" + p.stdout[-2000:])
    leaves = []
    rx = re.compile(r"h = <<(.*)>>")
    with open(dump) as f:
        for ln in f:
            m = rx.search(ln)
            if m and m.group(1).strip():
                seq = [int(x) for x in m.group(1).split(",")]
                if len(seq) == w["K"]:
                    leaves.append(seq)
    shutil.rmtree(d, ignore_errors=True)
    return leaves, distinct


def generate(name, n, sd, workdir):
    """n window schedules (all of them if n is None), sampled by seed."""
    w = WINDOWS[name]
    leaves, states = enumerate_window(name, workdir)
    leaves.sort()
    total = len(leaves)
    if n is not None and n < total:
        rnd = random.Random(sd * 7919 + 13)
        leaves = rnd.sample(leaves, n)
    scheds = []
    for seq in leaves:
        steps = list(w["prologue"]) + [w["pool"][i - 1] for i in seq] + [Q, {"op": "final"}]
        scheds.append({"id": "%s-%s" % (name, ".".join(str(i) for i in seq)), "cfg": w["cfg"], "steps": steps})
    return scheds, states, total
